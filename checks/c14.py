"""C14 - recurrences are values: shifting, equality, hashing and text round trip.

Transitions: r + d, d + r, r - d, (r + d) - d, ==, !=, hash, str, parse(str(r)).
Oracle: shift identities against M's instants; an equality matrix judged on the observable
components; text round trip.
"""
from fractions import Fraction

from isomc import impl, recur, pools, collide, alphabets as A, refmodel as M
from isomc.runner import HorizonExceeded

ID = "C14"
TITLE = "Recurrences are values: shifting, equality, hashing and text round trip"
TOL = Fraction(1, 1000000)
SHIFTS = [{"seconds": 1}, {"hours": -1}, {"days": 1}, {"weeks": -1}, {"hours": 36},
          {"days": 2, "hours": 5, "minutes": 7, "seconds": 11}, {"minutes": -45}]


def units(tier):
    us = []
    for kind in A.KINDS:
        n = len(recur.anchors(kind, tier))
        for i in range(n):
            # quick: shifts from every second anchor (each anchor day still occurs in some representation)
            if tier != "quick" or i % 2 == 0 or recur.anchors(kind, tier)[i]["t"][0] != "hms":
                us.append(("shift", kind, i))
            us.append(("eq", kind, i))
    return us


def _obs(c, r):
    """Observable components as the object reports them: (n, start instant, end instant, interval triple)."""
    def inst(p):
        if p is None:
            return None
        x = impl.alpha_fast(p, c)
        return ("invalid", x[8]) if x[8] is not None else x[7]
    d = r.duration
    dd = None if d is None else impl.alpha_duration(d)[:3]
    return (r.repetitions, inst(r.start_point), inst(r.end_point), dd)


def _guard(ctx, sig, case, what, fn):
    impl._H.ticks = 0
    ctx.transitions += 1
    try:
        return True, fn()
    except HorizonExceeded as ex:
        ctx.violation("terminates", sig, case, what + " terminates", str(ex))
    except Exception as ex:
        ctx.violation("total", dict(sig, exc=type(ex).__name__, q=what), case, what + " works",
                      "raised %s: %s" % (type(ex).__name__, ex))
    return False, None


NOMINAL_SHIFTS = [{"months": 1}, {"months": -1}, {"years": 1}, {"months": 13, "days": 1}]


def check_nominal_shift(ctx, kind, c, desc, sdesc):
    """r + d for a month/year d: same repetitions and interval, the given anchor moved by d (as TimePoint arithmetic
    moves it - that is C05's subject), either operand order, subtraction as addition of the negation."""
    case = lambda: {"kind": "shift", "mode": kind, "r": desc, "shift": sdesc}  # noqa: E731
    fmt, n, ddesc = desc["fmt"], desc["n"], desc["dur"]
    single = n == 1 or recur.is_zero(ddesc)
    sig = {"fmt": fmt, "single": single, "nominal": recur.is_nominal(ddesc), "bounded": n is not None, "nominal_shift": True}
    try:
        r, a, d, second = recur.build(impl, desc)
    except BaseException:
        ctx.count("not_buildable(C12's business)")
        return
    sh = impl.build_duration(sdesc)
    ok, s = _guard(ctx, sig, case, "r + d", lambda: r + sh)
    if not ok:
        return
    ctx.traces += 1
    o0, o1 = _obs(c, r), _obs(c, s)
    if o1[0] != o0[0]:
        ctx.violation("shift_keeps_repetitions", sig, case, o0[0], o1[0])
    if o1[3] != o0[3]:
        ctx.violation("shift_keeps_interval", sig, case, str(o0[3]), str(o1[3]))
    given0 = r.end_point if (fmt == 4 and not single) else r.start_point
    given1 = s.end_point if (fmt == 4 and not single) else s.start_point
    try:
        want = given0 + sh
        if given1 is None or not (given1 == want) or impl.alpha_fast(given1, c)[7] != impl.alpha_fast(want, c)[7]:
            ctx.violation("shift_anchor", dict(sig, which="given"), case, impl.sstr(want),
                          None if given1 is None else impl.sstr(given1))
    except Exception as ex:
        ctx.violation("total", dict(sig, exc=type(ex).__name__, q="anchor + d"), case, "anchor + d works", repr(ex))
    ok, s2 = _guard(ctx, sig, case, "d + r", lambda: sh + r)
    if ok and not (s2 == s and _obs(c, s2) == o1):
        ctx.violation("shift_either_order", sig, case, impl.sstr(s), impl.sstr(s2))
    ok, s3 = _guard(ctx, sig, case, "r - (-d)", lambda: r - (-1 * sh))
    if ok and not (s3 == s and _obs(c, s3) == o1):
        ctx.violation("shift_sub_is_add_neg", sig, case, impl.sstr(s), impl.sstr(s3))


def check_shift(ctx, kind, c, desc, sdesc):
    if recur.is_nominal(sdesc):
        return check_nominal_shift(ctx, kind, c, desc, sdesc)
    case = lambda: {"kind": "shift", "mode": kind, "r": desc, "shift": sdesc}  # noqa: E731
    fmt, n, ddesc = desc["fmt"], desc["n"], desc["dur"]
    nominal, zero = recur.is_nominal(ddesc), recur.is_zero(ddesc)
    single = n == 1 or zero
    sig = {"fmt": fmt, "single": single, "nominal": nominal, "bounded": n is not None}
    try:
        r, a, d, second = recur.build(impl, desc)
    except BaseException:
        ctx.count("not_buildable(C12's business)")
        return
    sh = impl.build_duration(sdesc)
    try:
        hash(r)     # r has been used as a key (hashed, printed) before it is shifted
        str(r)
    except Exception:
        pass
    ok, s = _guard(ctx, sig, case, "r + d", lambda: r + sh)
    if not ok:
        return
    ctx.traces += 1
    slen = impl.duration_len(sdesc)
    exact = pools.exact_domain(desc["anchor"]["t"], sdesc) and pools.exact_domain(desc["anchor"]["t"], ddesc)
    o0, o1 = _obs(c, r), _obs(c, s)
    # same repetitions and interval
    if o1[0] != o0[0]:
        ctx.violation("shift_keeps_repetitions", sig, case, o0[0], o1[0])
    if o1[3] != o0[3] and (exact or o0[3] is None or o1[3] is None or o1[3][:2] != o0[3][:2] or
                           abs(o1[3][2] - o0[3][2]) > TOL):
        ctx.violation("shift_keeps_interval", sig, case, str(o0[3]), str(o1[3]))
    # anchors moved by d
    for name, i in (("start", 1), ("end", 2)):
        x0, x1 = o0[i], o1[i]
        if x0 is None or isinstance(x0, tuple):
            if x0 is None and x1 is not None:
                ctx.violation("shift_anchor", dict(sig, which=name), case, None, str(x1))
            continue
        given = (name == "start" and fmt in (1, 3)) or (name == "end" and fmt == 4) or single
        if not given and nominal:
            continue   # a derived far end moves by d only for exact intervals
        if x1 is None or isinstance(x1, tuple) or (x1 - x0 != slen and (exact or abs(x1 - x0 - slen) > TOL)):
            ctx.violation("shift_anchor", dict(sig, which=name), case, {"moved_by_s": str(slen)},
                          {"before": str(x0), "after": str(x1), "shifted": impl.sstr(s)})
    # every point of the series moves by exactly d (exact intervals)
    if not nominal:
        lim = (n + 3) if n else recur.CAP
        ok, pr = _guard(ctx, sig, case, "iterate r", lambda: recur.take(r, lim))
        ok2, ps = _guard(ctx, sig, case, "iterate r + d", lambda: recur.take(s, lim))
        if ok and ok2:
            ir = [impl.alpha_fast(p, c) for p in pr]
            is_ = [impl.alpha_fast(p, c) for p in ps]
            if (not exact) and len(ir) != len(is_):
                # outside the exact float domain a bound comparison can flip on rounding noise: not judged
                ctx.count("series_not_judged_float_noise")
            elif len(ir) != len(is_) or any(x[8] or y[8] for x, y in zip(ir, is_)) or any(
                    (y[7] - x[7] != slen) and (exact or abs(y[7] - x[7] - slen) > TOL) for x, y in zip(ir, is_)):
                ctx.violation("shift_moves_every_point", sig, case, {"moved_by_s": str(slen), "len": len(ir)},
                              {"before": [impl.sstr(p) for p in pr[:5]], "after": [impl.sstr(p) for p in ps[:5]]})
            ctx.outcome("series_len", len(ir))
    # the shifted value hashes like an equal recurrence built from scratch (from its own text)
    if exact or nominal:
        try:
            from metomi.isodatetime.parsers import TimeRecurrenceParser
            twin = TimeRecurrenceParser().parse(str(s))
            ctx.transitions += 2
            if twin == s and hash(twin) != hash(s):
                ctx.violation("shifted_hash", sig, case, {"twin": str(twin), "hash": hash(twin)},
                              {"shifted": str(s), "hash": hash(s)})
        except Exception:
            pass
    # either operand order; subtraction is addition of the negation
    ok, s2 = _guard(ctx, sig, case, "d + r", lambda: sh + r)
    if ok and not (s2 == s and _obs(c, s2) == o1):
        ctx.violation("shift_either_order", sig, case, impl.sstr(s), impl.sstr(s2))
    ok, s3 = _guard(ctx, sig, case, "r - (-d)", lambda: r - (-1 * sh))
    if ok and not (s3 == s and _obs(c, s3) == o1):
        ctx.violation("shift_sub_is_add_neg", sig, case, impl.sstr(s), impl.sstr(s3))
    # (r + d) - d == r
    ok, back = _guard(ctx, sig, case, "(r + d) - d", lambda: s - sh)
    if ok:
        ob = _obs(c, back)
        same = ob == o0 if exact else (ob[0] == o0[0] and all(
            (x is None and y is None) or (x is not None and y is not None and not isinstance(x, tuple) and
                                          not isinstance(y, tuple) and abs(x - y) <= TOL)
            for x, y in ((ob[1], o0[1]), (ob[2], o0[2]))))
        if not same or (exact and not (back == r)):
            ctx.violation("shift_roundtrip", sig, case, impl.sstr(r), impl.sstr(back))


def check_window_shift(ctx, kind, c, desc, sdesc):
    """The same recurrence carrying a min_point / max_point keyword (a window that contains the anchor, and one that
    excludes it): the stated identities only - same repetitions and interval after the shift, either operand order,
    (r + d) - d == r with equal hashes. What the window does to iteration is not defined by any property and not judged."""
    if recur.is_nominal(sdesc) or not (pools.exact_domain(desc["anchor"]["t"], sdesc) and
                                       pools.exact_domain(desc["anchor"]["t"], desc["dur"])):
        return
    fmt, n, ddesc = desc["fmt"], desc["n"], desc["dur"]
    try:
        r0, a, d, second = recur.build(impl, desc)
        far = impl.build_duration({"days": 400})
        lo, hi = a - far, a + far
    except BaseException:
        return
    sh = impl.build_duration(sdesc)
    for wname, kw in (("min_before", {"min_point": lo}), ("max_after", {"max_point": hi}), ("min_after", {"min_point": hi}),
                      ("max_before", {"max_point": lo}), ("both", {"min_point": lo, "max_point": hi})):
        case = (lambda wname=wname: {"kind": "window_shift", "mode": kind, "r": desc, "shift": sdesc, "window": wname})
        sig = {"fmt": fmt, "single": n == 1 or recur.is_zero(ddesc), "window": wname, "bounded": n is not None}
        try:
            if fmt == 3:
                r = impl.TimeRecurrence(repetitions=n, start_point=a, duration=d, **kw)
            elif fmt == 4:
                r = impl.TimeRecurrence(repetitions=n, end_point=a, duration=d, **kw)
            else:
                r = impl.TimeRecurrence(repetitions=n, start_point=a, end_point=second, **kw)
            hash(r)
        except BaseException:
            ctx.count("not_buildable(C12's business)")
            return
        ok, s = _guard(ctx, sig, case, "r + d", lambda: r + sh)
        if not ok:
            continue
        ctx.traces += 1
        o0, o1 = _obs(c, r), _obs(c, s)
        if o1[0] != o0[0]:
            ctx.violation("shift_keeps_repetitions", sig, case, o0[0], o1[0])
        if o1[3] != o0[3]:
            ctx.violation("shift_keeps_interval", sig, case, str(o0[3]), str(o1[3]))
        ok, s2 = _guard(ctx, sig, case, "d + r", lambda: sh + r)
        if ok and (not (s2 == s) or hash(s2) != hash(s)):
            ctx.violation("shift_either_order", sig, case, impl.sstr(s), impl.sstr(s2))
        ok, back = _guard(ctx, sig, case, "(r + d) - d", lambda: s - sh)
        if ok and (not (back == r) or back != r or hash(back) != hash(r) or _obs(c, back) != o0):
            ctx.violation("shift_roundtrip", sig, case, impl.sstr(r) + " " + wname, impl.sstr(back))


def check_text(ctx, kind, c, desc):
    if recur.mixed_sign(desc["dur"]) and not (desc["n"] == 1 or recur.is_zero(desc["dur"])):
        return  # no text form for a mixed-sign interval
    case = lambda: {"kind": "text", "mode": kind, "r": desc}  # noqa: E731
    sig = {"fmt": desc["fmt"], "single": desc["n"] == 1 or recur.is_zero(desc["dur"]),
           "nominal": recur.is_nominal(desc["dur"])}
    try:
        r, a, d, second = recur.build(impl, desc)
    except BaseException:
        return
    if desc["fmt"] == 1 and not pools.exact_domain(desc["anchor"]["t"], desc["dur"]):
        return  # the second point has more than six decimals: outside the dumper's stated precision (C08)
    from metomi.isodatetime.parsers import TimeRecurrenceParser
    ok, text = _guard(ctx, sig, case, "str(r)", lambda: str(r))
    if not ok:
        return
    ok, r2 = _guard(ctx, sig, case, "parse(str(r))", lambda: TimeRecurrenceParser().parse(text))
    if not ok:
        return
    ctx.traces += 1
    if not (r2 == r) or (r2 != r) or hash(r2) != hash(r) or _obs(c, r2) != _obs(c, r):
        ctx.violation("text_roundtrip", sig, case, text, impl.sstr(r2))
        return
    lim = (desc["n"] + 3) if desc["n"] else recur.CAP
    ok, p1 = _guard(ctx, sig, case, "iterate", lambda: recur.take(r, lim))
    ok2, p2 = _guard(ctx, sig, case, "iterate parsed", lambda: recur.take(r2, lim))
    if ok and ok2 and (len(p1) != len(p2) or any(not (x == y) for x, y in zip(p1, p2))):
        ctx.violation("text_roundtrip_points", sig, case, [impl.sstr(p) for p in p1[:5]], [impl.sstr(p) for p in p2[:5]])
    if str(r2) != text:
        # not demanded by the property (it asks for parse(str(r)) == r with the same points): e.g. a single-point
        # start/second-point recurrence whose second point is another spelling of the start prints differently
        ctx.count("text_not_a_fixpoint_but_equal")


def _variants(kind, c, anchor, ddesc, n, fmt):
    """Recurrence descriptors around one base: single-component variants and re-spellings."""
    dn, tod, off = impl.model_point(anchor, kind)
    inst = int(dn * 86400 + tod - off * 60)
    rep, z = anchor["rep"], anchor["tz"]
    base = {"fmt": fmt, "n": n, "anchor": anchor, "dur": ddesc, "via": "ctor"}
    out = [("base", base)]
    out.append(("other_n", dict(base, n=(n + 1) if n else 5)))
    out.append(("other_anchor", dict(base, anchor=collide._desc(c, rep, (inst + off * 60 + 86400) // 86400,
                                                                   anchor["t"], z))))
    d2 = dict(ddesc)
    d2["seconds"] = d2.get("seconds", 0) + 1
    out.append(("other_interval", dict(base, dur=d2)))
    # re-spellings of the same anchor instant
    for zz, rr in (([1, 0], "ord" if rep != "ord" else "week"), ([-5, -30], "cal" if rep != "cal" else "week"),
                   (z, "ord" if rep != "ord" else "cal")):
        o2 = zz[0] * 60 + zz[1]
        local = inst + o2 * 60
        d_, t_ = divmod(local, 86400)
        h, r_ = divmod(t_, 3600)
        mi, s = divmod(r_, 60)
        out.append(("respelled_anchor", dict(base, anchor=collide._desc(c, rr, d_, ["hms", h, mi, s], zz))))
    # re-spellings of the interval
    alt = None
    if ddesc == {"days": 1}:
        alt = {"hours": 24}
    elif ddesc == {"weeks": 1}:
        alt = {"days": 7}
    elif ddesc == {"hours": 36}:
        alt = {"days": 1, "hours": 12}
    elif ddesc == {"minutes": 90}:
        alt = {"hours": 1, "minutes": 30}
    elif ddesc == {"years": 1}:
        alt = {"years": 1, "days": 0}
    if alt:
        out.append(("respelled_interval", dict(base, dur=alt)))
    # intervals that differ by less than a microsecond are still different intervals
    near = {"minutes": 66} if ddesc == {"minutes": 90} else ({"seconds": 1.0000004} if ddesc == {"seconds": 1} else None)
    if near:
        out.append(("near_interval_a", dict(base, dur=near)))
        out.append(("near_interval_b", dict(base, dur={"hours": 1.1} if "minutes" in near else {"seconds": 1})))
    if not recur.is_nominal(ddesc) and fmt == 3:
        out.append(("other_notation", dict(base, fmt=1)))
    # a different interval that spans the same start and end (only the interval component differs):
    # e.g. R2/2016-01-31/P1M vs R2/2016-01-31/P29D
    if n is not None and n >= 2 and not recur.is_zero(ddesc):
        try:
            r = recur.build(impl, base)[0]
            if r.start_point is not None and r.end_point is not None:
                span = impl.alpha_duration(r.end_point - r.start_point)[2]
                if span > 0 and span % (n - 1) == 0 and (span // (n - 1)).denominator == 1:
                    per = int(span // (n - 1))
                    alt2 = {"seconds": per} if recur.is_nominal(ddesc) else None
                    if alt2 is None and ddesc == {"days": 366}:
                        alt2 = None
                    if alt2:
                        out.append(("same_span_other_interval", dict(base, dur=alt2)))
        except Exception:
            pass
    return out


def check_eq_group(ctx, kind, c, anchor, ddesc, n, fmt):
    vs = []
    for label, desc in _variants(kind, c, anchor, ddesc, n, fmt):
        try:
            r = recur.build(impl, desc)[0]
            o = _obs(c, r)
            if any(isinstance(x, tuple) and x and x[0] == "invalid" for x in o[1:3]):
                continue
            impl._H.ticks = 0
            pts = recur.take(r, (desc["n"] + 3) if desc["n"] else 6)
            vs.append((label, desc, r, o, pts))
        except BaseException:
            ctx.count("variant_not_buildable")
    nominal = recur.is_nominal(ddesc)
    for i, (la, da, ra, oa, pa) in enumerate(vs):
        for j, (lb, db, rb, ob, pb) in enumerate(vs):
            case = lambda: {"kind": "eq", "mode": kind, "a": da, "b": db}  # noqa: E731
            sig = {"a": la, "b": lb, "fmt": fmt}
            impl._H.ticks = 0
            ctx.transitions += 3
            try:
                eq, ne = (ra == rb), (ra != rb)
                ha, hb = hash(ra), hash(rb)
            except Exception as ex:
                ctx.violation("total", dict(sig, exc=type(ex).__name__), case, "==, !=, hash work", repr(ex))
                continue
            ctx.traces += 1
            want = oa == ob
            ctx.outcome("equal", want)
            if eq is not want or ne is want:
                ctx.violation("equality", dict(sig, want=want), case, {"equal": want, "observables": [str(oa), str(ob)]},
                              {"eq": eq, "ne": ne})
            if eq and ha != hb:
                ctx.violation("hash_of_equal", sig, case, "equal recurrences hash equally", [ha, hb])
            if want and eq:
                # iterate identically: for exact intervals always; otherwise when anchors are written alike
                alike = da["anchor"]["rep"] == db["anchor"]["rep"] and da["anchor"]["tz"] == db["anchor"]["tz"]
                if (not nominal or alike) and (len(pa) != len(pb) or any(not (x == y) for x, y in zip(pa, pb))):
                    ctx.violation("equal_iterate_identically", sig, case, [impl.sstr(p) for p in pa[:5]],
                                  [impl.sstr(p) for p in pb[:5]])


def run_unit(unit, ctx):
    u, kind, ai = unit
    impl.set_mode(A.MODE_OF[kind])
    c = M.cal(kind)
    anchor = recur.anchors(kind, ctx.tier)[ai]
    if u == "shift":
        for d in recur.EXACT + recur.NOMINAL:
            for n in recur.NS:
                for fmt in (3, 4, 1):
                    if fmt == 1 and recur.is_nominal(d):
                        continue
                    if anchor["t"][1] == 24 and recur.is_nominal(d):
                        # month/year arithmetic on a 24:00 operand is not defined by the properties (see C05, C12)
                        ctx.count("skipped_24h_anchor_nominal")
                        continue
                    desc = {"fmt": fmt, "n": n, "anchor": anchor, "dur": d, "via": "ctor"}
                    ctx.state_count += 1
                    ctx.sample(lambda: {"r": desc, "shift": SHIFTS[0]})
                    main = SHIFTS if ctx.tier != "quick" else SHIFTS[:3] + SHIFTS[5:6]
                    for sd in main if (n in (None, 1, 3)) else SHIFTS[:1]:
                        check_shift(ctx, kind, c, desc, sd)
                    if n in (None, 1, 3) and anchor["t"][1] != 24:
                        for sd in NOMINAL_SHIFTS:
                            check_shift(ctx, kind, c, desc, sd)
                    if n in (None, 1, 3):
                        check_window_shift(ctx, kind, c, desc, SHIFTS[2] if fmt == 4 else SHIFTS[1])
                    check_text(ctx, kind, c, desc)
    else:
        if anchor["t"][0] != "hms":
            return
        for d in recur.EXACT + recur.NOMINAL:
            for n in (None, 1, 3):
                for fmt in (3, 4):
                    ctx.state_count += 1
                    check_eq_group(ctx, kind, c, anchor, d, n, fmt)


def replay_case(case, ctx):
    kind = case["mode"]
    impl.set_mode(A.MODE_OF[kind])
    c = M.cal(kind)
    if case["kind"] == "shift":
        check_shift(ctx, kind, c, case["r"], case["shift"])
    elif case["kind"] == "window_shift":
        check_window_shift(ctx, kind, c, case["r"], case["shift"])
    elif case["kind"] == "text":
        check_text(ctx, kind, c, case["r"])
    else:
        a = case["a"]
        check_eq_group(ctx, kind, c, a["anchor"], a["dur"], a["n"], a["fmt"])
        b = case["b"]
        check_eq_group(ctx, kind, c, b["anchor"], b["dur"], b["n"], b["fmt"])


def vacuity(tier, counters, outcomes):
    if outcomes.get("equal", 0) != 2:
        return "equality matrix never had both answers"
    return None


def describe(tier):
    return {
        "rule": "per mode x anchor x 16 intervals x repetitions x 3 notations: %d shift durations (all for n in "
                "{unbounded,1,3}, two otherwise): r+d, d+r, r-(-d), (r+d)-d, every point moved; str/parse round trip; "
                "equality groups: base + single-component variants + re-spelled anchors/intervals/notation, all "
                "ordered pairs judged on observable components" % len(SHIFTS),
        "bounds": {"unbounded_iteration_cap": recur.CAP},
        "alphabet_sizes": {"shifts": len(SHIFTS), "intervals": len(recur.EXACT) + len(recur.NOMINAL)},
        "exhaustive": True,
        "assumptions": ["'differ' is judged on the components the object reports (normalised single-point recurrences "
                        "with different constructor intervals are rightly equal)",
                        "equality groups use whole-second anchors only (float policy)"],
    }
