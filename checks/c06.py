"""C06 - changing the UTC offset never changes the instant.

Transitions: to_time_zone(z) for every legal z, to_utc, to_local_time_zone (system zone seam),
TimePointDumper.dump with every zone-bearing format that spells a literal zone.
Oracle: instant invariance (M), ==, hash, zero difference, requested offset, same
representation, constructor-valid fields; dumps decoded by M's own notation decoder.
"""
from fractions import Fraction

from isomc import impl, pools, mtext, alphabets as A, refmodel as M
from isomc.runner import HorizonExceeded

ID = "C06"
TITLE = "Changing the UTC offset never changes the instant"
TOL = Fraction(1, 1000000)
SEAM_OFFSETS = [0, 60, -330, -30, 345, 840, -720]
Z_SRC_QUICK = [[-5, -30], [0, -30], [14, 0], [99, 59]]
DEST_QUICK = [(1, 0), (-5, -30), (0, -30), (99, 59), (-99, -59)]


def _base_points(kind, tier):
    c = M.cal(kind)
    out = []
    years = [0, 2000, 9999] if tier == "quick" else A.Y_S
    for y in years:
        for doy in (1, c.year_len(y)) if tier == "quick" else (1, c.year_len(y), 60):
            dn = c.dn_from_ord(y, doy)
            for rep, t, z in (("cal", ["hms", 0, 0, 0], [0, 0]), ("ord", ["hms", 23, 59, 59], [-5, -30]),
                              ("week", ["hms", 24, 0, 0], [5, 45]), ("cal", ["hf", 6, 0.25], [0, 0]),
                              ("week", ["hmf", 12, 30, 0.5], [1, 0]), ("ord", ["hf", 6, 0.1], [0, -30])):
                f = list(c.from_dn(rep, dn))
                d = {"rep": rep, "f": f, "t": t, "tz": z}
                if not 0 <= f[0] <= 9999:
                    d["ned"] = 2
                out.append(d)
    return out


def _pool_configs(tier):
    k = 2 if tier == "quick" else 4
    for kind, rep, ts, zs, nd, years, days in pools.configs(k):
        if tier == "quick":
            years = A.Y_S
            if zs is pools.Z_DEV:
                zs = Z_SRC_QUICK
            if nd >= 1 and not (nd == 1 and rep != "cal"):
                days = "small"
        else:
            years = A.Y_B if (kind == "greg" and nd <= 2) else A.Y_S
            days = "boundary" if nd <= 2 else days
        yield kind, rep, ts, zs, nd, years, days
    if tier == "quick":
        # the configurations with 3 and 4 deviations on a compact pool (thorough explores them in full above)
        for kind, rep, ts, zs, nd, years, days in pools.configs(4):
            if nd >= 3:
                yield (kind, rep, CORNER_T if ts is pools.T_DEV else [pools.T_WHOLE[0], pools.T_WHOLE[-1]],
                       CORNER_Z if zs is pools.Z_DEV else zs, nd, CORNER_Y, "small")


CORNER_Y = [2000, 2003, -1]
CORNER_T = pools.T_24 + [["hf", 23, 0.5], ["hmf", 12, 30, 0.3], ["hmsf", 23, 59, 59, 0.999999]]
CORNER_Z = [[-5, -30], [99, 59]]


def units(tier):
    us = []
    kinds = ["greg"] if tier == "quick" else list(A.KINDS)
    for kind in kinds:
        n = len(_base_points(kind, tier))
        step = 2 if tier == "quick" else 1
        for i in range(0, n, step):
            us.append(("all", kind, i, min(i + step, n)))
    for ci, (kind, rep, ts, zs, nd, years, days) in enumerate(_pool_configs(tier)):
        ys = list(years)
        chunk = 4 if days == "boundary" else 6
        for i in range(0, len(ys), chunk):
            us.append(("pool", ci, ys[i:i + chunk]))
    us.append(("cancel", "greg"))
    for kind in A.KINDS:
        for rep in pools.REPS:
            us.append(("dump_forms", kind, rep))
            us.append(("dump_points", kind, rep))
            us.append(("dump_yearedge", kind, rep))
    return us


def _exact_rezone(t, own_off, dest_off):
    cls = pools.time_class(t)
    if t[0] == "hmsf":
        return True     # an offset change moves whole hours and minutes: a fractional *second* is never touched
    if cls == "general":
        return False
    if t[0] == "hf":
        return (dest_off - own_off) % 15 == 0
    return True


_ZALL = None


def zall():
    global _ZALL
    if _ZALL is None:
        _ZALL = A.z_all()
    return _ZALL


def check_rezone(ctx, kind, c, pdesc, p, p_inst, p_hash, dest, how="to_time_zone"):
    """One transition: p re-expressed at offset dest=(h, m)."""
    case = lambda: {"kind": "rezone", "mode": kind, "p": pdesc, "dest": list(dest), "how": how}  # noqa: E731
    own = pdesc["tz"][0] * 60 + pdesc["tz"][1]
    doff = dest[0] * 60 + dest[1]
    exact = _exact_rezone(pdesc["t"], own, doff)
    sig = {"h24": pdesc["t"][1] == 24, "exact": exact, "how": how}
    impl._H.ticks = 0
    ctx.transitions += 1
    try:
        if how == "to_time_zone":
            q = p.to_time_zone(impl.TimeZone(hours=dest[0], minutes=dest[1]))
        elif how == "to_utc":
            q = p.to_utc()
        else:
            with impl.system_zone(doff):
                q = p.to_local_time_zone()
    except HorizonExceeded as ex:
        ctx.violation("terminates", sig, case, "re-zoning terminates", str(ex))
        return
    except Exception as ex:
        ctx.violation("total", dict(sig, exc=type(ex).__name__), case, "re-zoning returns a TimePoint",
                      "raised %s: %s" % (type(ex).__name__, ex))
        return
    ctx.traces += 1
    rep, f, h, m, s, qoff, qdn, qinst, problem = impl.alpha_fast(q, c)
    if problem is not None:
        ctx.violation("fields_valid", sig, case, "valid local date and time fields",
                      {"result": impl.sstr(q), "why": problem})
        return
    if rep != pdesc["rep"]:
        ctx.violation("keeps_representation", sig, case, pdesc["rep"], rep)
    if (q._time_zone._hours, q._time_zone._minutes) != tuple(dest):
        ctx.violation("requested_offset", sig, case, list(dest), [q._time_zone._hours, q._time_zone._minutes])
    if qinst != p_inst and (exact or abs(qinst - p_inst) > TOL):
        ctx.violation("instant", sig, case, {"instant": str(p_inst)},
                      {"result": impl.sstr(q), "instant": str(qinst), "error_s": float(qinst - p_inst)})
    if exact:
        ctx.transitions += 4
        try:
            if not (q == p) or not (p == q) or (q != p):
                ctx.violation("compares_equal", sig, case, "re-zoned value == original", impl.sstr(q))
            if hash(q) != p_hash:
                ctx.violation("hashes_equal", sig, case, p_hash, hash(q))
            d1, d2 = q - p, p - q
            if impl.alpha_duration(d1)[2] != 0 or impl.alpha_duration(d2)[2] != 0 or d1 or d2:
                ctx.violation("zero_difference", sig, case, "P0Y", [str(d1), str(d2)])
        except HorizonExceeded as ex:
            ctx.violation("terminates", sig, case, "comparison/difference terminates", str(ex))
        except Exception as ex:
            ctx.violation("total", dict(sig, exc=type(ex).__name__), case, "==, hash, - work",
                          "raised %s: %s" % (type(ex).__name__, ex))
    ctx.outcome("day_shift", qdn - c.dn_from(pdesc["rep"], pdesc["f"]))


def _prep(kind, c, pdesc):
    p = impl.build_point(pdesc)
    dn, tod, off = impl.model_point(pdesc, kind)
    inst = dn * 86400 + (int(tod) if tod.denominator == 1 else tod) - off * 60
    return p, inst, hash(p)


# ------------------------------------------------------------------------------------------------
# dumps with a literal zone
# ------------------------------------------------------------------------------------------------
ZONE_LITERALS = ["Z", "+01", "-05", "+14", "-12", "+99", "+00",
                 "+0530", "-0030", "+0545", "-0530", "+9959", "-9959", "+0000", "-0100",
                 "+05:30", "-00:30", "+05:45", "-05:30", "+99:59", "-99:59", "+00:00", "+01:00"]


def _zone_literal_offset(zl):
    if zl == "Z":
        return 0, "both"
    sign = -1 if zl[0] == "-" else 1
    body = zl[1:]
    if ":" in body:
        return sign * (int(body[:2]) * 60 + int(body[3:])), "extended"
    if len(body) == 4:
        return sign * (int(body[:2]) * 60 + int(body[2:])), "basic"
    return sign * int(body) * 60, "both"


def _dump_time_forms(t, local_tod):
    """Time forms that spell the point's local time of day to its full precision."""
    tf = mtext.time_forms()
    out = []
    if local_tod.denominator == 1:
        out += ["hhmmss_basic", "hhmmss_ext"]
        if local_tod % 60 == 0:
            out += ["hhmm_basic", "hhmm_ext"]
        if local_tod % 3600 == 0:
            out += ["hh"]
    if t[0] == "hf":
        out += ["hh_fc", "hh_fp"]
    if t[0] == "hmf":
        out += ["hhmm_fc_basic", "hhmm_fp_ext", "hhmm_fc_ext"]
    if t[0] in ("hmsf",) or (t[0] == "hms" and t[1] != 24):
        out += ["hhmmss_fc_basic", "hhmmss_fc_ext", "hhmmss_fp_ext"]
    # decimal forms on a coarser unit than the point's own, when the local time has few enough decimals there
    if t[0] != "hf" and local_tod % 3600 != 0 and (local_tod / 3600 * 10 ** 6).denominator == 1:
        out += ["hh_fc", "hh_fp"]
    if t[0] in ("hms", "hmsf") and local_tod % 60 != 0 and (local_tod / 60 * 10 ** 6).denominator == 1:
        out += ["hhmm_fc_ext", "hhmm_fp_basic"]
    return [(n, tf[n]) for n in out]


def _frac_token(ttoks):
    for t in ttoks:
        if t in ("fh", "fm", "fs"):
            return t
    return None


def check_dump(ctx, kind, c, pdesc, p, p_inst, dform_name, zl):
    zoff, zkind = _zone_literal_offset(zl)
    dforms = mtext.date_forms()
    dtoks, dkind, _, drep = dforms[dform_name]
    if not mtext.compatible(dkind, zkind):
        return
    local = p_inst + zoff * 60
    ldn, ltod = divmod(local, 86400)
    ltod = Fraction(ltod)
    own = pdesc["tz"][0] * 60 + pdesc["tz"][1]
    exact = _exact_rezone(pdesc["t"], own, zoff)
    ned = pdesc.get("ned", 0)
    dumper = impl.D.TIMEPOINT_DUMPER_MAP.get(ned) or impl.D.dumpers.TimePointDumper(ned)
    for tname, (ttoks, tkind, _) in _dump_time_forms(pdesc["t"], ltod):
        if not mtext.compatible(dkind, tkind, zkind):
            continue
        own_form = "f" + pdesc["t"][0][1:2] == _frac_token(ttoks)
        if not exact and not own_form and pdesc["t"][0] not in ("hf", "hmf"):
            continue
        # (outside the exact float domain the decimal form of the point's own precision is judged to the six printed
        # digits; a form finer than a decimal-hour/minute point's own - whole seconds, say - to one microsecond)
        toks = dtoks + [mtext.lit("T")] + ttoks + [mtext.lit(zl)]
        fmt = mtext.notation(toks)
        case = lambda: {"kind": "dump", "mode": kind, "p": pdesc, "dform": dform_name, "zl": zl, "fmt": fmt}  # noqa
        sig = {"h24": pdesc["t"][1] == 24, "zstyle": "Z" if zl == "Z" else ("hh" if len(zl) == 3 else zkind)}
        if not exact and not own_form:
            sig["finer_than_point_after_inexact_rezone"] = True
        impl._H.ticks = 0
        ctx.transitions += 1
        try:
            text = dumper.dump(p, fmt)
        except HorizonExceeded as ex:
            ctx.violation("terminates", sig, case, "dump terminates", str(ex))
            continue
        except Exception as ex:
            # a year that does not fit the format's digits is a clean refusal, not a violation
            if type(ex).__name__ == "TimePointDumperBoundsError":
                ctx.count("dump_bounds_refusals")
                continue
            ctx.violation("total", dict(sig, exc=type(ex).__name__), case, "dump returns text",
                          "raised %s: %s" % (type(ex).__name__, ex))
            continue
        ctx.traces += 1
        try:
            f = mtext.decode(toks, text, ned)
        except mtext.DecodeError as ex:
            ctx.violation("dump_form", sig, case, "text in the requested form", {"text": text, "why": str(ex)})
            continue
        if drep == "cal":
            ok = c.valid_cal(f["year"], f["month"], f["day"])
            dn = c.dn_from_cal(f["year"], f["month"], f["day"]) if ok else None
        elif drep == "ord":
            ok = c.valid_ord(f["year"], f["doy"])
            dn = c.dn_from_ord(f["year"], f["doy"]) if ok else None
        else:
            ok = c.valid_week(f["year"], f["week"], f["wday"])
            dn = c.dn_from_week(f["year"], f["week"], f["wday"]) if ok else None
        tod = Fraction(f["h"]) * 3600 + Fraction(f.get("m", 0)) * 60 + Fraction(f.get("s", 0))
        if "frac" in f:
            unit = {"fh": 3600, "fm": 60, "fs": 1}[f["frac_of"]]
            tod += Fraction(int(f["frac"]), 10 ** len(f["frac"])) * unit
        if not ok or not M.valid_time(Fraction(f["h"]), f.get("m"), f.get("s")):
            ctx.violation("dump_fields_valid", sig, case, "valid local fields", text)
            continue
        got = dn * 86400 + tod - zoff * 60
        tol = 0 if exact else Fraction({"fh": 3600, "fm": 60, "fs": 1}[f["frac_of"]], 1000000) if "frac_of" in f else TOL
        if abs(got - p_inst) > tol:
            ctx.violation("dump_instant", sig, case, {"instant": str(p_inst)}, {"text": text, "instant": impl.sstr(got)})
        ctx.outcome("dump_day_shift", dn - c.dn_from(pdesc["rep"], pdesc["f"]))


DUMP_POINT_TIMES = [["hms", 0, 0, 0], ["hms", 23, 59, 59], ["hms", 12, 30, 0], ["hms", 24, 0, 0],
                    ["hf", 6, 0.25], ["hmf", 12, 30, 0.5], ["hmsf", 5, 59, 59, 0.5]]


def run_unit(unit, ctx):
    u = unit[0]
    if u == "all":
        _, kind, i0, i1 = unit
        impl.set_mode(A.MODE_OF[kind])
        c = M.cal(kind)
        for pdesc in _base_points(kind, ctx.tier)[i0:i1]:
            p, inst, hsh = _prep(kind, c, pdesc)
            ctx.state_count += 1
            ctx.sample(lambda: {"mode": kind, "p": pdesc, "dest": "every legal offset -99:59..+99:59"})
            for dest in zall():
                check_rezone(ctx, kind, c, pdesc, p, inst, hsh, dest)
    elif u == "pool":
        _, ci, ys = unit
        kind, rep, ts, zs, nd, years, days = list(_pool_configs(ctx.tier))[ci]
        impl.set_mode(A.MODE_OF[kind])
        c = M.cal(kind)
        for pdesc in pools.point_descs(kind, rep, ts, zs, ys, days):
            p, inst, hsh = _prep(kind, c, pdesc)
            ctx.state_count += 1
            for dest in (DEST_QUICK if ctx.tier == "quick" else A.Z_S):
                check_rezone(ctx, kind, c, pdesc, p, inst, hsh, dest)
            check_rezone(ctx, kind, c, pdesc, p, inst, hsh, (0, 0), how="to_utc")
            for so in SEAM_OFFSETS[2:4] if ctx.tier == "quick" else SEAM_OFFSETS:
                check_rezone(ctx, kind, c, pdesc, p, inst, hsh, M.split_offset_minutes(so), how="to_local")
    elif u == "cancel":
        # the destination offset takes exactly the decimal part of the local time away (T01,4Z -> -01:24) or fills the
        # day up: the local time lands a hair below or above a whole unit; fields must stay in range, and 24:00 of the
        # previous day is not "00:00" of this one
        kind = unit[1]
        impl.set_mode(A.MODE_OF[kind])
        c = M.cal(kind)
        for cc in range(5, 100, 5):
            mins = cc * 6 // 10
            for k in (0, 1, 23):
                for rep, f in (("cal", [2000, 3, 1]), ("ord", [2000, 61]), ("week", [2000, 9, 3])):
                    for t in (["hf", k, cc / 100.0], ["hmf", k, mins, 0.25], ["hmf", k, mins, cc / 100.0]):
                        pdesc = {"rep": rep, "f": f, "t": t, "tz": [0, 0]}
                        p, inst, hsh = _prep(kind, c, pdesc)
                        ctx.state_count += 1
                        for dest in ((-k, -mins), (23 - k, 60 - mins), (-k - 24, -mins)):
                            if abs(dest[0]) > 99 or (dest[0] > 0 and dest[1] < 0) or (dest[0] < 0 and dest[1] > 0):
                                continue
                            check_rezone(ctx, kind, c, pdesc, p, inst, hsh, dest)
                            rq = impl.alpha_fast(p.to_time_zone(impl.TimeZone(hours=dest[0], minutes=dest[1])), c)
                            if rq[8] is None and rq[2] == 24:
                                ctx.violation("fields_valid", {"h24": False, "exact": False, "how": "to_time_zone", "part": "h24"},
                                              {"kind": "rezone", "mode": kind, "p": pdesc, "dest": list(dest), "how": "to_time_zone"},
                                              "0 <= h < 24 for an operand that is not written as 24:00", list(rq[1:5]))
    elif u in ("dump_forms", "dump_points", "dump_yearedge"):
        _, kind, rep = unit
        impl.set_mode(A.MODE_OF[kind])
        c = M.cal(kind)
        names = [n for n, v in mtext.date_forms().items() if v[2] == "complete"]
        if u == "dump_forms":
            # full product of date form x time form x zone literal on a small set of points
            pts = pools.point_descs(kind, rep, DUMP_POINT_TIMES, [[0, 0], [-5, -30]],
                                    [2000, -1] if ctx.tier == "quick" else [2000, 2004, -1, 10000], "small")
            zls = ZONE_LITERALS
        elif u == "dump_yearedge":
            # days where week-year and calendar year differ (or nearly), within an hour of midnight, so that the literal
            # zone moves the local date across the week-year / year boundary in either direction
            pts = pools.point_descs(kind, rep, pools.T_EDGE, pools.Z_EDGE,
                                    pools.Y_WEEKCYCLE_Q if ctx.tier == "quick" else pools.Y_WEEKCYCLE, "yearedge")
            zls = ["Z", "+01", "-0100", "+01:00", "-00:30", "+0545"]
        else:
            pts = pools.point_descs(kind, rep, DUMP_POINT_TIMES[:4], [[0, 0], [5, 45], [-99, -59]], A.Y_S,
                                    "small" if ctx.tier == "quick" else "boundary")
            zls = ["Z", "-05", "+0545", "-00:30", "+99:59", "-9959"]
        for pdesc in pts:
            p, inst, hsh = _prep(kind, c, pdesc)
            ctx.state_count += 1
            exp = bool(pdesc.get("ned"))
            for n in names:
                if n.startswith("x") != exp:
                    continue
                for zl in zls:
                    check_dump(ctx, kind, c, pdesc, p, inst, n, zl)


def replay_case(case, ctx):
    kind = case["mode"]
    impl.set_mode(A.MODE_OF[kind])
    c = M.cal(kind)
    p, inst, hsh = _prep(kind, c, case["p"])
    if case["kind"] == "rezone":
        check_rezone(ctx, kind, c, case["p"], p, inst, hsh, tuple(case["dest"]), how=case["how"])
    else:
        check_dump(ctx, kind, c, case["p"], p, inst, case["dform"], case["zl"])


def vacuity(tier, counters, outcomes):
    if outcomes.get("day_shift", 0) < 5:
        return "re-zoning never moved the local date by several days"
    if outcomes.get("dump_day_shift", 0) < 3:
        return "dumps never moved the local date"
    return None


def describe(tier):
    return {
        "rule": "base points x every legal offset (all (h,m) with minutes carrying the hour's sign, 11 999); "
                "deviation-bounded point pool x 9 destination offsets + to_utc + to_local_time_zone under system-zone "
                "seams (quick: <= 2 deviations in full + the 23 configurations with 3-4 deviations on a compact pool); year-edge "
                "days of a 14/28-year weekday cycle near midnight; complete date form x precision-preserving time form x %d literal zone spellings dumps, "
                "decoded by M" % len(ZONE_LITERALS),
        "bounds": {"offsets_all": len(zall()), "dest_offsets_pool": len(DEST_QUICK if tier == "quick" else A.Z_S), "seam_offsets": SEAM_OFFSETS,
                   "deviation_bound_completed": 2 if tier == "quick" else 4, "tolerance_s": 1e-6},
        "alphabet_sizes": {"zone_literals": len(ZONE_LITERALS), "complete_date_forms": 12, "time_forms": 15},
        "exhaustive": True,
        "assumptions": ["==, hash and zero difference are demanded in the exact float domain only; decimal-hour "
                        "operands are exact only for offset changes that are multiples of 15 minutes"],
    }
