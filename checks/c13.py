"""C13 - recurrence queries agree with iteration.

States: (recurrence, probe point). Transitions: get_is_valid, r[i], get_next, get_prev,
get_first_after. Oracle: differential against the iterated series (pinned down by C12), with
membership judged on M's instants.
"""
from fractions import Fraction

from isomc import impl, recur, collide, pools, alphabets as A, refmodel as M
from isomc.runner import HorizonExceeded

ID = "C13"
TITLE = "Recurrence queries agree with iteration"
KMEM = 12        # members of an unbounded series that are generated
NEAR = 8         # probes are placed around the first NEAR members


def _anchors(kind, tier):
    a = recur.anchors(kind, tier)
    return a[::2] if tier == "quick" else a


def units(tier):
    us = []
    for kind in A.KINDS:
        for i in range(len(_anchors(kind, tier))):
            us.append((kind, i))
    return us


def _respell(c, inst, z, rep):
    off = z[0] * 60 + z[1]
    local = inst + off * 60
    dn, tod = divmod(local, 86400)
    h, r = divmod(tod, 3600)
    mi, s = divmod(r, 60)
    return collide._desc(c, rep, int(dn), ["hms", int(h), int(mi), int(s)], z)


def _safe(ctx, sig, case, what, fn):
    impl._H.ticks = 0
    ctx.transitions += 1
    try:
        return True, fn()
    except HorizonExceeded as ex:
        ctx.violation("terminates", sig, case, what + " terminates", str(ex))
    except IndexError:
        raise
    except Exception as ex:
        ctx.violation("total", dict(sig, exc=type(ex).__name__, q=what), case, what + " returns",
                      "raised %s: %s" % (type(ex).__name__, ex))
    return False, None


def _with_max_point(r, pts, ddesc):
    """The same recurrence with max_point set inside the series (after the 3rd member, before the 4th)."""
    if len(pts) < 4:
        return None
    half = impl.Duration(seconds=1)
    kw = {"repetitions": r.repetitions, "duration": r.duration, "max_point": pts[2] + half}
    if r.format_number == 4 and r.repetitions is None:
        return None
    if r.format_number == 4:
        kw["end_point"] = r.end_point
    else:
        kw["start_point"] = r.start_point
    return impl.TimeRecurrence(**kw)


def _with_min_point(r, pts, ddesc):
    """An unbounded duration/end recurrence with min_point set inside the series (one second before its 3rd member,
    counting back from the end): iteration stops there, which makes it a bounded, completely known descending series."""
    if len(pts) < 4 or r.format_number != 4 or r.repetitions is not None:
        return None
    return impl.TimeRecurrence(repetitions=None, duration=r.duration, end_point=r.end_point,
                               min_point=pts[2] - impl.Duration(seconds=1))


def check_rec(ctx, kind, c, desc):
    fmt, n, ddesc = desc["fmt"], desc["n"], desc["dur"]
    nominal, zero = recur.is_nominal(ddesc), recur.is_zero(ddesc)
    base_sig = {"fmt": fmt, "bounded": n is not None, "nominal": nominal}
    case0 = lambda: {"kind": "rec", "mode": kind, "r": desc}  # noqa: E731
    try:
        r, a, d, second = recur.build(impl, desc)
        single = n == 1 or zero
        n_eff = 1 if single else n
        impl._H.ticks = 0
        pts = recur.take(r, (n_eff + 5) if n_eff is not None else KMEM)
        if desc.get("max_point"):
            # the optional max_point bound: the series is what iteration yields with it (a bounded, complete set)
            r = _with_max_point(r, pts, ddesc)
            if r is None:
                return
            pts = recur.take(r, KMEM)
            n_eff = len(pts)
            n = n_eff
            fmt = 3 if fmt == 1 else fmt
            base_sig = dict(base_sig, max_point=True)
        if desc.get("min_point"):
            r = _with_min_point(r, pts, ddesc)
            if r is None:
                return
            pts = recur.take(r, KMEM)
            n_eff = len(pts)
            n = n_eff
            base_sig = dict(base_sig, min_point=True)
    except BaseException:
        ctx.count("recurrences_not_buildable_or_iterable(C12's business)")
        return
    infos = [impl.alpha_fast(p, c) for p in pts]
    if not pts or any(i[8] is not None for i in infos):
        ctx.count("recurrences_with_invalid_points(C12's business)")
        return
    if n_eff is not None and len(pts) != n_eff:
        # a series that C12 already reports as wrong cannot serve as the reference for its own queries
        ctx.count("recurrences_skipped_series_wrong_per_C12")
        return
    ctx.traces += 1
    insts = [i[7] for i in infos]
    bounded = n_eff is not None
    descending = fmt == 4 and desc["n"] is None
    rep, z = desc["anchor"]["rep"], desc["anchor"]["tz"]
    complete = bounded  # do we know the whole member set?

    # ---- r[i] -------------------------------------------------------------------------------------
    for i in range(len(pts) + (2 if bounded else 0)):
        sig = dict(base_sig, q="getitem")
        case = lambda: {"kind": "rec", "mode": kind, "r": desc, "q": "getitem", "i": i}  # noqa: E731
        impl._H.ticks = 0
        ctx.transitions += 1
        try:
            got = r[i]
        except IndexError:
            if i < len(pts):
                ctx.violation("getitem", sig, case, impl.sstr(pts[i]), "IndexError")
            continue
        except HorizonExceeded as ex:
            ctx.violation("terminates", sig, case, "r[i] terminates", str(ex))
            continue
        except Exception as ex:
            ctx.violation("total", dict(sig, exc=type(ex).__name__), case, "r[i] returns or IndexError", repr(ex))
            continue
        if i >= len(pts):
            ctx.violation("getitem", sig, case, "IndexError beyond a bounded series", impl.sstr(got))
        elif not (got == pts[i]) or impl.alpha_fast(got, c)[7] != insts[i]:
            ctx.violation("getitem", sig, case, impl.sstr(pts[i]), impl.sstr(got))

    # ---- get_next / get_prev on members -------------------------------------------------------------------
    if not single:
        last = len(pts) - 1
        for k in range(len(pts)):
            for q in ("get_next", "get_prev"):
                # the neighbour in iteration order
                fwd = (q == "get_next") != descending       # moves along the iteration direction?
                if nominal and not fwd:
                    continue
                j = k + 1 if fwd else k - 1
                if j > last and not bounded:
                    continue                                    # beyond what was generated
                sig = dict(base_sig, q=q, at=("end" if j > last or j < 0 else "inner"))
                case = lambda: {"kind": "rec", "mode": kind, "r": desc, "q": q, "k": k}  # noqa: E731
                ok, got = _safe(ctx, sig, case, q, lambda: getattr(r, q)(pts[k]))
                if not ok:
                    continue
                if j < 0 or j > last:
                    # before the first member of a start-anchored series / after the end of a bounded or
                    # end-anchored one there is no member
                    if got is not None:
                        ctx.violation("neighbour", sig, case, None, impl.sstr(got))
                elif got is None or not (got == pts[j]) or impl.alpha_fast(got, c)[7] != insts[j]:
                    ctx.violation("neighbour", sig, case, impl.sstr(pts[j]), impl.sstr(got))
    else:
        for q in ("get_next", "get_prev"):
            sig = dict(base_sig, q=q, at="single")
            case = lambda: {"kind": "rec", "mode": kind, "r": desc, "q": q, "k": 0}  # noqa: E731
            ok, got = _safe(ctx, sig, case, q, lambda: getattr(r, q)(pts[0]))
            if ok and got is not None:
                ctx.violation("neighbour", sig, case, None, impl.sstr(got))

    # ---- probes ----------------------------------------------------------------------------------------------
    probes = []  # (desc, inst)
    near = [(k, insts[k]) for k in range(min(len(pts), NEAR))]
    others = [([1, 0], "ord" if rep != "ord" else "week"), ([-5, -30], "cal" if rep != "cal" else "week")]
    for k, it in near:
        if isinstance(it, Fraction) and it.denominator != 1:
            continue
        it = int(it)
        probes.append((_respell(c, it, z, rep), it))
        for zz, rr in others:
            probes.append((_respell(c, it, zz, rr), it))
        for dlt in (-1, 1):
            probes.append((_respell(c, it + dlt, z, rep), it + dlt))
        if k + 1 < len(near) and not isinstance(insts[k + 1], Fraction):
            mid = (it + int(insts[k + 1])) // 2
            if mid not in (it, int(insts[k + 1])):
                probes.append((_respell(c, mid, z, rep), mid))
    lo, hi = min(insts), max(insts)
    if not isinstance(lo, Fraction) and not isinstance(hi, Fraction):
        for it in (lo - 86400, lo - 86400000, hi + 86400, hi + 86400000):
            probes.append((_respell(c, it, z, rep), it))
    member_set = set(insts)
    exact_len = None if nominal or single else impl.duration_len(ddesc)
    a_inst = insts[0]

    def is_member(it):
        """M's verdict, or None when it cannot be decided from the generated members."""
        if it in member_set:
            return True
        if complete or single:
            return False
        # unbounded: decided inside the generated span, or by modular arithmetic for exact intervals
        if min(insts) <= it <= max(insts):
            return False
        if descending and it > a_inst:
            return False
        if not descending and it < a_inst:
            return False
        if exact_len:
            return (it - a_inst) % exact_len == 0
        return None

    TOL = Fraction(1, 1000000)
    for pd, it in probes:
        dist = min(abs(it - x) for x in insts)
        if 0 < dist <= TOL:
            # float noise: a probe within a microsecond of a member that is not exactly at it is not judged
            ctx.count("probes_not_judged_float_noise")
            continue
        sig = dict(base_sig, q="get_is_valid")
        case = lambda: {"kind": "rec", "mode": kind, "r": desc, "q": "probe", "probe": pd}  # noqa: E731
        try:
            p = impl.build_point(pd)
        except Exception:
            continue
        want = is_member(it)
        if want is not None and (exact_len is None or abs(it - a_inst) <= 60 * max(exact_len, 1)):
            ok, got = _safe(ctx, sig, case, "get_is_valid", lambda: r.get_is_valid(p))
            if ok and got is not want:
                ctx.violation("membership", dict(sig, member=want), case, want, got)
            ctx.outcome("membership", want)
        # get_first_after: recurrences that have a start point, whole-second probes
        if fmt == 4 and desc["n"] is None:   # no start point: outside the stated quantifier
            continue
        later = sorted(x for x in insts if x > it)
        if later:
            want_inst = later[0]
            if not complete and it >= max(insts):
                continue
        else:
            if not complete and not single:
                continue
            want_inst = None
        sig = dict(base_sig, q="get_first_after",
                   where=("before" if it < lo else "after_last" if it >= hi else "inside"),
                   interval_has_fractional_seconds=(exact_len is not None and Fraction(exact_len).denominator != 1))
        ok, got = _safe(ctx, sig, case, "get_first_after", lambda: r.get_first_after(p))
        if not ok:
            continue
        ctx.outcome("first_after", sig["where"])
        if want_inst is None:
            if got is not None:
                ctx.violation("first_after", sig, case, None, impl.sstr(got))
        else:
            gi = impl.alpha_fast(got, c) if got is not None else None
            if got is None or gi[8] is not None or abs(gi[7] - want_inst) > (
                    0 if pools.exact_domain(desc["anchor"]["t"], ddesc) else TOL):
                ctx.violation("first_after", sig, case, {"instant": str(want_inst)},
                              None if got is None else {"got": impl.sstr(got), "instant": str(gi[7])})
    ctx.state_count += len(probes)


def run_unit(unit, ctx):
    kind, ai = unit
    impl.set_mode(A.MODE_OF[kind])
    c = M.cal(kind)
    anchor = _anchors(kind, ctx.tier)[ai]
    for d in recur.EXACT + recur.NOMINAL:
        for n in recur.NS:
            for fmt in (3, 4, 1):
                if fmt == 1 and recur.is_nominal(d):
                    continue
                if fmt == 1 and not pools.exact_domain(anchor["t"], d):
                    continue
                desc = {"fmt": fmt, "n": n, "anchor": anchor, "dur": d, "via": "ctor"}
                ctx.sample(desc)
                check_rec(ctx, kind, c, desc)
                if n in (None, 7) and fmt in (3, 4) and not recur.is_zero(d):
                    check_rec(ctx, kind, c, dict(desc, max_point=True))
                if n is None and fmt == 4 and not recur.is_zero(d):
                    check_rec(ctx, kind, c, dict(desc, min_point=True))


def replay_case(case, ctx):
    kind = case["mode"]
    impl.set_mode(A.MODE_OF[kind])
    check_rec(ctx, kind, M.cal(kind), case["r"])


def vacuity(tier, counters, outcomes):
    if outcomes.get("membership", 0) < 2:
        return "membership never had both answers"
    if outcomes.get("first_after", 0) < 3:
        return "get_first_after probes did not cover before/inside/after"
    return None


def describe(tier):
    return {
        "rule": "per mode: (every second anchor in quick) x 16 intervals x repetitions x 3 notations; per recurrence: "
                "r[i] for every index up to len+1; get_next/get_prev on every generated member; probes = first %d "
                "members re-spelled in the anchor's and two other offsets/representations, member +-1 s, midpoints, "
                "before/after/far outside; get_is_valid and get_first_after on every probe" % NEAR,
        "bounds": {"members_generated_for_unbounded": KMEM, "probe_members": NEAR},
        "alphabet_sizes": {"intervals": len(recur.EXACT) + len(recur.NOMINAL), "repetitions": len(recur.NS)},
        "exhaustive": True,
        "assumptions": ["iteration itself is C12's subject; a series C12 reports as wrong is not used as a reference",
                        "get_first_after only for recurrences with a start point and whole-second probes (as stated)"],
    }
