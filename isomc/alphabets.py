"""Shared alphabets, built by rule: one element on each side of every shortcut visible in the
anchored code. Sizes are printed into the evidence by the checks that use them."""
from isomc import refmodel as M

KINDS = M.KINDS
MODE_OF = M.KIND_MODE                      # canonical spelling per kind
SPELLINGS = ["gregorian", "360day", "360_day", "365day", "365_day", "366day", "366_day"]

# boundary years: around every factor of the leap rule and of the week anchor, both signs
Y_B = [-401, -400, -399, -101, -100, -99, -5, -4, -1, 0, 1, 4, 99, 100, 101, 399, 400, 401,
       1899, 1900, 1901, 1969, 1970, 1971, 1999, 2000, 2001, 2003, 2004, 2005, 2015, 2016,
       2020, 2021, 2096, 2099, 2100, 2101, 2399, 2400, 2401, 9998, 9999]
Y_EXP = [10000, -10000, 999999, -999999, 999998, -999998]
Y_S = [-400, -1, 0, 1, 1900, 1999, 2000, 2001, 2004, 2015, 2100, 9999]   # small set for products

Z_S = [(0, 0), (1, 0), (-5, -30), (0, -30), (5, 45), (14, 0), (-12, 0), (99, 59), (-99, -59)]
Z_Q = [(s * h, s * q) for s in (1, -1) for h in range(0, 15) for q in (0, 15, 30, 45)
       if not (s == -1 and h == 0 and q == 0) and not (h == 14 and q)]


def z_all():
    out = []
    for o in range(-(99 * 60 + 59), 99 * 60 + 60):
        out.append(M.split_offset_minutes(o))
    return out


def days_boundary(c, y):
    """D_b(y): first and last day of every month, neighbours of the leap day, first 4 and last 4
    days of the year - as day-of-year numbers (sorted, distinct)."""
    n = c.year_len(y)
    s = set()
    cum = c.cum(y)
    for m in range(12):
        s.add(cum[m] + 1)
        s.add(cum[m + 1])
    s.update((1, 2, 3, 4, n - 3, n - 2, n - 1, n))
    feb = cum[2]
    s.update((feb - 1, feb, feb + 1, feb + 2))
    return sorted(x for x in s if 1 <= x <= n)


def reps_of_dn(c, dn):
    """The three representations of a day number."""
    return {"cal": list(c.cal_from_dn(dn)), "ord": list(c.ord_from_dn(dn)), "week": list(c.week_from_dn(dn))}


TIMES_WHOLE = [(0, 0, 0), (0, 0, 1), (5, 59, 59), (6, 0, 0), (12, 30, 0), (23, 59, 59)]
