"""C07 - the parser decodes every documented date-time form to exactly its fields.

Grammar exploration. A state is (form, field assignment, parser configuration); the transition is
TimePointParser.parse (and str(parse(s, dump_as_parsed=True))). M renders the text from its own
table of forms (isomc/mtext.py) and knows the fields it wrote.
"""
from fractions import Fraction

from isomc import impl, mtext, alphabets as A, refmodel as M

ID = "C07"
TITLE = "The parser decodes every documented date-time form to exactly its fields"
FTOL = Fraction(1, 10 ** 9)

SEAMS = [0, 330, -210, 765]         # system UTC offsets (minutes) used when nothing else decides the zone
CONFIGS = [
    {"name": "default"},
    {"name": "assume_utc", "assumed_time_zone": (0, 0)},
    {"name": "assume_0530", "assumed_time_zone": (5, 30)},
    {"name": "assume_-0330", "assumed_time_zone": (-3, -30)},
    {"name": "unknown_default", "default_to_unknown_time_zone": True},
    {"name": "ned1", "num_expanded_year_digits": 1},
    {"name": "ned3", "num_expanded_year_digits": 3},
    {"name": "basic_only", "allow_only_basic": True},
    {"name": "assume_and_unknown", "assumed_time_zone": (5, 30), "default_to_unknown_time_zone": True},
    # a parser that carries its own default dump format: dump_as_parsed given to parse() must still reproduce the input
    {"name": "own_dump_format", "dump_format": "CCYY-MM-DDThh:mm:ss+hh:mm"},
]


def make_parser(cfg, truncated=False):
    from metomi.isodatetime.parsers import TimePointParser
    kw = {k: v for k, v in cfg.items() if k != "name"}
    if truncated:
        kw["allow_truncated"] = True
    return TimePointParser(**kw)


def cfg_ned(cfg):
    return cfg.get("num_expanded_year_digits", 2)


def expected_zone(cfg, zf, seam):
    """(h, m) the parsed point must carry."""
    if zf is not None:
        return zf
    if cfg.get("assumed_time_zone") is not None:
        return tuple(cfg["assumed_time_zone"])
    if cfg.get("default_to_unknown_time_zone"):
        return (0, 0)
    return M.split_offset_minutes(seam)


# ------------------------------------------------------------------------------------------------
# value vectors
# ------------------------------------------------------------------------------------------------
def date_vectors(rep, cls, expanded, ned):
    """Field assignments (min, max, mixed...) valid in the Gregorian calendar."""
    big = 10 ** (4 + ned) - 1
    if expanded:
        years = [0, -1, 2015, -big, big, 2016]
    else:
        years = [0, 9999, 2015, 2016]
    g = M.cal("greg")
    out = []
    for y in years:
        if rep == "cal":
            fs = [{"month": 1, "day": 1}, {"month": 12, "day": 31}, {"month": 2, "day": g.month_len(y, 2)}]
        elif rep == "ord":
            fs = [{"doy": 1}, {"doy": g.year_len(y)}, {"doy": 60}]
        else:
            fs = [{"week": 1, "wday": 1}, {"week": g.weeks_in_year(y), "wday": 7}, {"week": 26, "wday": 4}]
        for f in fs:
            f = dict(f, year=y)
            out.append(f)
    return out


TIME_VECTORS = [{"h": 0, "m": 0, "s": 0}, {"h": 23, "m": 59, "s": 59}, {"h": 6, "m": 31, "s": 1}, {"h": 24, "m": 0, "s": 0}]
FRACS = ["5", "0", "25671", "3333", "999999", "000001", "50", "123456789"]
ZONE_VECTORS = {
    "Z": [{}],
    "hh": [{"zsign": "+", "zh": 0}, {"zsign": "+", "zh": 14}, {"zsign": "-", "zh": 12}, {"zsign": "+", "zh": 99},
           {"zsign": "-", "zh": 0}],
    "hhmm": [{"zsign": "+", "zh": 13, "zm": 0}, {"zsign": "-", "zh": 10, "zm": 0}, {"zsign": "-", "zh": 0, "zm": 30},
             {"zsign": "+", "zh": 99, "zm": 59}, {"zsign": "-", "zh": 99, "zm": 59}, {"zsign": "+", "zh": 5, "zm": 45},
             {"zsign": "-", "zh": 0, "zm": 0}],
}
ZONE_VECTORS["hh:mm"] = ZONE_VECTORS["hhmm"]


def zone_value(zname, zv):
    if zname == "Z":
        return (0, 0)
    sign = -1 if zv["zsign"] == "-" else 1
    return (sign * zv["zh"], sign * zv.get("zm", 0))


# ------------------------------------------------------------------------------------------------
def expected_date(rep, cls, name, f):
    """(rep, fields) the TimePoint must report."""
    y = f.get("year")
    if cls == "complete":
        if rep == "cal":
            return "cal", (y, f["month"], f["day"])
        if rep == "ord":
            return "ord", (y, f["doy"])
        return "week", (y, f["week"], f["wday"])
    base = name.lstrip("x")
    if base == "month":
        return "cal", (y, f["month"], 1)
    if base == "year":
        return "cal", (y, 1, 1)
    if base == "century":
        return "cal", (f["year"], 1, 1)
    return "week", (y, f["week"], 1)


def check_parse(ctx, parser, cfg, seam, text, exp_rep, exp_f, exp_time, exp_zone, case, sig,
                dump_expected=None, accept=True):
    """exp_time: (form, h, m, s) with Fractions for decimal units / None for absent lower units."""
    ctx.transitions += 1
    impl._H.ticks = 0
    try:
        with impl.system_zone(seam):
            p = parser.parse(text)
    except ValueError as ex:
        if accept:
            ctx.violation("accepts_documented_form", sig, case, "accepted", "raised %s: %s" % (type(ex).__name__, ex))
        else:
            ctx.traces += 1
        return
    except Exception as ex:
        ctx.violation("total", dict(sig, exc=type(ex).__name__), case, "parse returns or raises ValueError",
                      "raised %s: %s" % (type(ex).__name__, ex))
        return
    ctx.traces += 1
    if not accept:
        ctx.violation("refuses", sig, case, "refused", impl.sstr(p))
        return
    a = impl.alpha(p, "greg")
    if a.rep != exp_rep or tuple(a.f) != tuple(exp_f):
        ctx.violation("date_fields", sig, case, {"rep": exp_rep, "f": list(exp_f)}, a.brief())
    form, h, m, s = exp_time
    got = (a.h, a.m, a.s)
    want = (h, m, s)
    bad = False
    for g, w in zip(got, want):
        if (g is None) != (w is None):
            bad = True
        elif g is not None and abs(Fraction(g) - w) > FTOL:
            bad = True
    if bad:
        ctx.violation("time_fields", dict(sig, tform=form), case, [str(x) for x in want], [repr(x) for x in got])
    if (a.tzh, a.tzm) != tuple(exp_zone) or p.time_zone.unknown:
        ctx.violation("zone", sig, case, list(exp_zone), [a.tzh, a.tzm, p.time_zone.unknown])
    if p.truncated:
        ctx.violation("not_truncated", sig, case, "a full TimePoint", "truncated")
    if dump_expected is not None:
        ctx.transitions += 2
        try:
            with impl.system_zone(seam):
                back = str(parser.parse(text, dump_as_parsed=True))
        except Exception as ex:
            ctx.violation("dump_as_parsed", dict(sig, exc=type(ex).__name__), case, dump_expected,
                          "raised %s: %s" % (type(ex).__name__, ex))
            return
        if back != dump_expected:
            ctx.violation("dump_as_parsed", sig, case, dump_expected, back)


def strip_frac_zeros(fr):
    s = fr.rstrip("0")
    return s if s else "0"


def time_expect(tname, tv, frac):
    """Expected (form, h, m, s) as exact Fractions for a time form name."""
    h, m, s = tv["h"], tv["m"], tv["s"]
    fr = Fraction(int(frac), 10 ** len(frac)) if frac is not None else None
    if tname.startswith("hhmmss_f"):
        return ("fs", Fraction(h), Fraction(m), Fraction(s) + fr)
    if tname.startswith("hhmm_f"):
        return ("fm", Fraction(h), Fraction(m) + fr, None)
    if tname.startswith("hh_f"):
        return ("fh", Fraction(h) + fr, None, None)
    if tname.startswith("hhmmss"):
        return ("s", Fraction(h), Fraction(m), Fraction(s))
    if tname.startswith("hhmm"):
        return ("m", Fraction(h), Fraction(m), Fraction(0))
    return ("h", Fraction(h), Fraction(0), Fraction(0))


def all_texts(cfg, which="forms"):
    """Generator of (text, expectation...) for the full form product with covering vectors."""
    ned = cfg_ned(cfg)
    dforms, tforms, zforms = mtext.date_forms(), mtext.time_forms(), mtext.zone_forms()
    for dname, (dtoks, dkind, cls, rep) in dforms.items():
        expanded = dname.startswith("x")
        for dv in date_vectors(rep, cls, expanded, ned):
            if dname.lstrip("x") == "century":
                dv = {"year": (dv["year"] // 100) * 100 if dv["year"] >= 0 else -((-dv["year"]) // 100) * 100}
            exp_rep, exp_f = expected_date(rep, cls, dname, dv)
            dtext = mtext.render(dtoks, dv, ned)
            neg_zero = expanded and dv["year"] == 0 and False
            # date only
            yield (dname, None, None, dtext, dkind, exp_rep, exp_f, ("h", Fraction(0), Fraction(0), Fraction(0)),
                   None, dtext, dv)
            if cls != "complete":
                continue
            for tname, (ttoks, tkind, prec) in tforms.items():
                if not mtext.compatible(dkind, tkind):
                    continue
                needs_frac = prec in ("fs", "fm", "fh")
                for tv in TIME_VECTORS:
                    if tv["h"] == 24 and (needs_frac is True and False):
                        continue
                    fracs = FRACS if needs_frac else [None]
                    if tv["h"] == 24:
                        fracs = ["0"] if needs_frac else [None]
                    if needs_frac and dv is not date_vectors(rep, cls, expanded, ned)[0] and tv is not TIME_VECTORS[2]:
                        fracs = fracs[:2]
                    for fr in fracs:
                        tf = dict(tv)
                        if fr is not None:
                            tf["frac"] = fr
                        if tname.startswith("hhmm") and not tname.startswith("hhmmss") and tv["h"] == 24:
                            tf["m"] = 0
                        ttext = mtext.render(ttoks, tf)
                        texp = time_expect(tname, tv, fr)
                        if fr is not None and len(fr) <= 6:
                            tdump = mtext.render(ttoks, dict(tf, frac=strip_frac_zeros(fr)))
                        elif fr is None:
                            tdump = ttext
                        else:
                            tdump = None
                        # no zone
                        yield (dname, tname, None, dtext + "T" + ttext, ("mix", dkind, tkind), exp_rep, exp_f, texp,
                               None, None if tdump is None else dtext + "T" + tdump, dv)
                        for zname, (ztoks, zkind) in zforms.items():
                            if not mtext.compatible(dkind, tkind, zkind):
                                continue
                            zvs = ZONE_VECTORS[zname]
                            if not (tv is TIME_VECTORS[2] and fr in (None, "5")):
                                zvs = zvs[:2]
                            for zv in zvs:
                                ztext = mtext.render(ztoks, zv)
                                zval = zone_value(zname, zv)
                                neg0 = zname != "Z" and zv["zsign"] == "-" and zval == (0, 0)
                                dump = None if (tdump is None or neg0) else dtext + "T" + tdump + ztext
                                yield (dname, tname, zname, dtext + "T" + ttext + ztext, ("mix", dkind, tkind, zkind),
                                       exp_rep, exp_f, texp, zval, dump, dv)


def units(tier):
    us = []
    for ci in range(len(CONFIGS)):
        seams = SEAMS if CONFIGS[ci]["name"] == "default" else SEAMS[:1]
        for seam in seams:
            for part in range(4):
                us.append(("forms", ci, seam, part))
    for ci in (0, 5, 6):
        for fi in range(12):
            us.append(("years", ci, fi))
    us.append(("days", 0))
    for h in range(0, 24, 2):
        us.append(("times", h, h + 2))
    us.append(("fractions", "quick" if tier == "quick" else "full", 0))
    if tier != "quick":
        for k in range(1, 20):
            us.append(("fractions", "full", k))
    for k in range(0, 8):
        us.append(("zones", k))
    us.append(("mixing",))
    us.append(("zone_sequence",))
    for k in range(4):
        us.append(("truncated", k))
    return us


def _kind_ok_for_basic_only(kinds):
    return all(k in ("basic", "both") for k in kinds)


def run_unit(unit, ctx):
    impl.set_mode(None)
    u = unit[0]
    if u == "forms":
        _, ci, seam, part = unit
        cfg = CONFIGS[ci]
        parser = make_parser(cfg)
        basic_only = cfg.get("allow_only_basic")
        for i, (dname, tname, zname, text, kinds, exp_rep, exp_f, texp, zval, dump, dv) in enumerate(all_texts(cfg)):
            if i % 4 != part:
                continue
            flat = [k for k in (kinds if isinstance(kinds, tuple) else (kinds,)) if k != "mix"]
            case = {"kind": "form", "cfg": cfg["name"], "seam": seam, "text": text, "dform": dname, "tform": tname,
                    "zform": zname}
            sig = {"dform": dname.lstrip("x"), "tform": tname, "zform": zname, "cfg": cfg["name"],
                   "expanded": dname.startswith("x")}
            ctx.state_count += 1
            ctx.sample(case)
            accept = True
            if basic_only and not _kind_ok_for_basic_only(flat):
                accept = False
            # expanded sign of year zero: "-000000" is not reproduced (ISO forbids it); decode is still judged
            if dump is not None and dname.startswith("x") and dv.get("year") == 0 and text.startswith("-"):
                dump = None
            check_parse(ctx, parser, cfg, seam, text, exp_rep, exp_f, texp, expected_zone(cfg, zval, seam), case, sig,
                        dump_expected=dump if accept else None, accept=accept)
            ctx.outcome("form", "%s|%s|%s" % (dname, tname, zname))
    elif u == "years":
        cfg = CONFIGS[unit[1]]
        ned = cfg_ned(cfg)
        parser = make_parser(cfg)
        dforms = mtext.date_forms()
        # every unsigned year 0000-9999 and every signed expanded year -9999..9999 plus the ends, in the year-bearing
        # forms (joint enumeration of sign x expanded x century x year-of-century)
        big = 10 ** (4 + ned) - 1
        exp_years = list(range(-9999, 10000)) + [big, -big, big - 1, -(big - 1), 10000, -10000, 10 ** (3 + ned)]
        for dname in ("cal_ext", "ord_basic", "year", "month", "week_ext", "xcal_ext", "xord_basic", "xyear", "xmonth",
                      "xweek_basic", "century", "xcentury")[unit[2]:unit[2] + 1]:
            dtoks, dkind, cls, rep = dforms[dname]
            expanded = dname.startswith("x")
            ys = exp_years if expanded else range(0, 10000)
            if dname.lstrip("x") == "century":
                ys = sorted(set((abs(y) // 100) * 100 * (1 if y >= 0 else -1) for y in ys))
            for y in ys:
                if abs(y) > big:
                    continue
                dv = {"year": y, "month": 6, "day": 15, "doy": 166, "week": 24, "wday": 3}
                exp_rep, exp_f = expected_date(rep, cls, dname, dv)
                for text in (mtext.render(dtoks, dv, ned),) + (
                        (mtext.render(dtoks, dv, ned).replace("+", "-", 1),) if (expanded and y == 0) else ()):
                    case = {"kind": "year", "cfg": cfg["name"], "text": text, "dform": dname}
                    ctx.state_count += 1
                    dump = text if not (y == 0 and text.startswith("-")) else None
                    check_parse(ctx, parser, cfg, 0, text, exp_rep, exp_f, ("h", Fraction(0), Fraction(0), Fraction(0)),
                                expected_zone(cfg, None, 0), case, {"dform": dname.lstrip("x"), "cfg": cfg["name"],
                                                                   "expanded": expanded, "tform": None, "zform": None},
                                dump_expected=dump)
    elif u == "days":
        cfg = CONFIGS[1]
        parser = make_parser(cfg)
        g = M.cal("greg")
        dforms = mtext.date_forms()
        for y in (2015, 2016, 2000, 1900, 2020, 2026, 0):
            for dn in range(g.year_start(y), g.year_start(y + 1)):
                for dname in ("cal_basic", "cal_ext", "ord_basic", "ord_ext", "week_basic", "week_ext"):
                    dtoks, dkind, cls, rep = dforms[dname]
                    f = g.from_dn(rep, dn)
                    if not 0 <= f[0] <= 9999:
                        continue
                    dv = {"year": f[0]}
                    if rep == "cal":
                        dv.update(month=f[1], day=f[2])
                    elif rep == "ord":
                        dv.update(doy=f[1])
                    else:
                        dv.update(week=f[1], wday=f[2])
                    text = mtext.render(dtoks, dv)
                    ctx.state_count += 1
                    check_parse(ctx, parser, cfg, 0, text, rep, f, ("h", Fraction(0), Fraction(0), Fraction(0)), (0, 0),
                                {"kind": "day", "cfg": cfg["name"], "text": text, "dform": dname},
                                {"dform": dname, "cfg": cfg["name"], "expanded": False, "tform": None, "zform": None},
                                dump_expected=text)
    elif u == "times":
        cfg = CONFIGS[1]
        parser = make_parser(cfg)
        tforms = mtext.time_forms()
        for h in range(unit[1], unit[2]):
            for m in range(60):
                for s in range(60):
                    for tname, dpre in (("hhmmss_basic", "20151231T"), ("hhmmss_ext", "2015-12-31T")):
                        text = dpre + mtext.render(tforms[tname][0], {"h": h, "m": m, "s": s})
                        ctx.state_count += 1
                        check_parse(ctx, parser, cfg, 0, text, "cal", (2015, 12, 31),
                                    ("s", Fraction(h), Fraction(m), Fraction(s)), (0, 0),
                                    {"kind": "time", "cfg": cfg["name"], "text": text},
                                    {"dform": "cal", "tform": tname, "zform": None, "cfg": cfg["name"], "expanded": False},
                                    dump_expected=text)
        if unit[1] == 22:
            for text, texp in (("2015-12-31T24:00:00", ("s", Fraction(24), Fraction(0), Fraction(0))),
                               ("2015-12-31T24:00", ("m", Fraction(24), Fraction(0), Fraction(0))),
                               ("20151231T24", ("h", Fraction(24), Fraction(0), Fraction(0)))):
                check_parse(ctx, parser, cfg, 0, text, "cal", (2015, 12, 31), texp, (0, 0),
                            {"kind": "time", "cfg": cfg["name"], "text": text},
                            {"dform": "cal", "tform": "24", "zform": None, "cfg": cfg["name"], "expanded": False},
                            dump_expected=text)
    elif u == "fractions":
        cfg = CONFIGS[1]
        parser = make_parser(cfg)
        tforms = mtext.time_forms()
        if unit[1] == "quick":
            fr_list = [str(i) for i in range(10)] + ["%02d" % i for i in range(100)] + ["%03d" % i for i in range(1000)]
            fr_list += ["%06d" % i for i in (0, 1, 499999, 500000, 500001, 999998, 999999, 123456, 100000, 333333)]
            fr_list += ["1234567", "12345678", "123456789", "999999999", "000000001"]
        else:
            k = unit[2]
            fr_list = ["%06d" % i for i in range(k * 50000, (k + 1) * 50000)]
        for tname, dpre, tv in (("hh_fc", "2015-12-31T", {"h": 23, "m": 0, "s": 0}), ("hhmm_fc_ext", "2015-12-31T", {"h": 6, "m": 59, "s": 0}),
                                ("hhmmss_fp_basic", "20151231T", {"h": 0, "m": 0, "s": 59})):
            ttoks = tforms[tname][0]
            for fr in fr_list:
                text = dpre + mtext.render(ttoks, dict(tv, frac=fr))
                dump = dpre + mtext.render(ttoks, dict(tv, frac=strip_frac_zeros(fr))) if len(fr) <= 6 else None
                ctx.state_count += 1
                check_parse(ctx, parser, cfg, 0, text, "cal", (2015, 12, 31), time_expect(tname, tv, fr), (0, 0),
                            {"kind": "fraction", "cfg": cfg["name"], "text": text},
                            {"dform": "cal", "tform": tname, "zform": None, "cfg": cfg["name"], "expanded": False},
                            dump_expected=dump)
    elif u == "zones":
        cfg = CONFIGS[0]
        parser = make_parser(cfg)
        zall = A.z_all()
        part = unit[1]
        for i, (zh, zm) in enumerate(zall):
            if i % 8 != part:
                continue
            sign = "-" if (zh < 0 or zm < 0) else "+"
            for fmt, dpre in (("%s%02d%02d", "20151231T063101"), ("%s%02d:%02d", "2015-12-31T06:31:01")):
                text = dpre + fmt % (sign, abs(zh), abs(zm))
                ctx.state_count += 1
                dump = text if not (zh == 0 and zm == 0) else None
                check_parse(ctx, parser, cfg, 330, text, "cal", (2015, 12, 31), ("s", Fraction(6), Fraction(31), Fraction(1)),
                            (zh, zm), {"kind": "zone", "cfg": cfg["name"], "text": text},
                            {"dform": "cal", "tform": "hhmmss", "zform": "hhmm", "cfg": cfg["name"], "expanded": False},
                            dump_expected=dump)
            if zm == 0:
                for dpre in ("20151231T0631", "2015-12-31T06:31"):
                    text = dpre + "%s%02d" % (sign, abs(zh))
                    check_parse(ctx, parser, cfg, 330, text, "cal", (2015, 12, 31), ("m", Fraction(6), Fraction(31), Fraction(0)),
                                (zh, 0), {"kind": "zone", "cfg": cfg["name"], "text": text},
                                {"dform": "cal", "tform": "hhmm", "zform": "hh", "cfg": cfg["name"], "expanded": False},
                                dump_expected=text if zh != 0 else None)
    elif u == "mixing":
        # basic dates are never combined with extended times or vice versa, in any parser
        dforms, tforms, zforms = mtext.date_forms(), mtext.time_forms(), mtext.zone_forms()
        dv = {"year": 2015, "month": 12, "day": 31, "doy": 365, "week": 53, "wday": 4}
        tv = {"h": 6, "m": 31, "s": 1, "frac": "5"}
        zv = {"zsign": "+", "zh": 5, "zm": 30}
        for cfg in CONFIGS[:2] + CONFIGS[7:]:
            parser = make_parser(cfg)
            for dname, (dtoks, dkind, cls, rep) in dforms.items():
                if cls != "complete":
                    continue
                for tname, (ttoks, tkind, prec) in tforms.items():
                    for zname, (ztoks, zkind) in [(None, ([], "both"))] + list(zforms.items()):
                        if mtext.compatible(dkind, tkind, zkind):
                            continue
                        text = mtext.render(dtoks, dv, cfg_ned(cfg)) + "T" + mtext.render(ttoks, tv) + mtext.render(ztoks, zv)
                        ctx.state_count += 1
                        check_parse(ctx, parser, cfg, 0, text, None, (), None, None,
                                    {"kind": "mixing", "cfg": cfg["name"], "text": text},
                                    {"dform": dname, "tform": tname, "zform": zname, "cfg": cfg["name"], "mixing": True},
                                    accept=False)
                        ctx.outcome("mixing_refused", dkind + tkind + zkind)
    elif u == "zone_sequence":
        # one parser instance, the system's local offset changing between parses (DST flip, TZ reset): a missing zone
        # is resolved by the configuration *at the time of the parse*
        cfg = CONFIGS[0]
        parser = make_parser(cfg)
        texts = ["2015-12-31T06:31:01", "20151231T0631", "2015-365", "2015-W53-4T06"]
        exp = {"2015-12-31T06:31:01": ("cal", (2015, 12, 31), ("s", Fraction(6), Fraction(31), Fraction(1))),
               "20151231T0631": ("cal", (2015, 12, 31), ("m", Fraction(6), Fraction(31), Fraction(0))),
               "2015-365": ("ord", (2015, 365), ("h", Fraction(0), Fraction(0), Fraction(0))),
               "2015-W53-4T06": ("week", (2015, 53, 4), ("h", Fraction(6), Fraction(0), Fraction(0)))}
        for seq in ([0, 330, -210, 0, 765, 330], [765, 0], [-210, -210, 60]):
            for i, seam in enumerate(seq):
                for text in texts:
                    rep, f, texp = exp[text]
                    ctx.state_count += 1
                    check_parse(ctx, parser, cfg, seam, text, rep, f, texp, expected_zone(cfg, None, seam),
                                {"kind": "zone_sequence", "cfg": cfg["name"], "text": text, "seams_so_far": seq[:i + 1]},
                                {"dform": rep, "tform": None, "zform": None, "cfg": "default", "sequence": True},
                                dump_expected=text)
        # ... and an explicit zone or an assumed zone is never affected by the system's
        p2 = make_parser(CONFIGS[2])
        for seam in (0, 330, -210):
            check_parse(ctx, p2, CONFIGS[2], seam, "2015-12-31T06:31:01", "cal", (2015, 12, 31),
                        ("s", Fraction(6), Fraction(31), Fraction(1)), (5, 30),
                        {"kind": "zone_sequence", "cfg": CONFIGS[2]["name"], "text": "2015-12-31T06:31:01"},
                        {"dform": "cal", "tform": None, "zform": None, "cfg": CONFIGS[2]["name"], "sequence": True})
    elif u == "truncated":
        run_truncated(ctx, unit[1])


# ------------------------------------------------------------------------------------------------
TRUNC_VALUES = {
    "yoc": [0, 99, 15], "zdec": [0, 9, 5], "month": [1, 12, 2], "day": [1, 31, 28], "doy": [1, 366, 60],
    "week": [1, 53, 26], "wday": [1, 7, 4],
}
_TKEY = {"yoc": "yy", "zdec": "zdec", "month": "month", "day": "day", "doy": "doy", "week": "week", "wday": "wday"}
_PROP = {"yoc": "year_of_century", "zdec": "year_of_decade", "month": "month_of_year", "day": "day_of_month",
         "doy": "day_of_year", "week": "week_of_year", "wday": "day_of_week"}


def run_truncated(ctx, part):
    from metomi.isodatetime.parsers import TimePointParser
    parser = TimePointParser(allow_truncated=True, default_to_unknown_time_zone=True)
    parser_bo = TimePointParser(allow_truncated=True, default_to_unknown_time_zone=True, allow_only_basic=True)
    tdf = mtext.truncated_date_forms()
    ttf = mtext.truncated_time_forms()
    tforms = mtext.time_forms()
    zforms = mtext.zone_forms()
    # times admitted after a truncated date (or alone): complete, reduced and truncated forms
    time_specs = [(None, None, None)]
    for tname, (ttoks, tkind, prec) in tforms.items():
        time_specs.append((tname, ttoks, tkind))
    for tname, (ttoks, tkind, flds, ft) in ttf.items():
        time_specs.append((tname, ttoks, tkind))
    date_specs = [(None, [], "both", ())] + [(n, v[0], v[1], v[2]) for n, v in tdf.items()]
    idx = 0
    for dname, dtoks, dkind, dprops in date_specs:
        for vi in range(3):
            dv = {_TKEY[k]: TRUNC_VALUES[k][vi] for k in dprops}
            if "month" in dprops and "day" in dprops and vi == 2:
                dv["day"] = 28
            if dv.get("month") == 2 and dv.get("day", 1) > 29:
                dv["day"] = 29
            # a truncated year (of century / of decade) is taken as that year: keep day-of-year and week real in it
            ty = dv.get("yy", dv.get("zdec"))
            if ty is not None:
                g = M.cal("greg")
                if "doy" in dv:
                    dv["doy"] = min(dv["doy"], g.year_len(ty))
                if "week" in dv:
                    dv["week"] = min(dv["week"], g.weeks_in_year(ty))
                if "month" in dv and "day" in dv:
                    dv["day"] = min(dv["day"], g.month_len(ty, dv["month"]))
            dtext = mtext.render(dtoks, dv) if dtoks else ""
            for tname, ttoks, tkind in time_specs:
                if dname is None and tname is None:
                    continue
                if dname is not None and tname in ttf and dtoks[0][0] != "'":
                    # a date truncated only by its century (YYMMDD, YY-DDD, ...) names the day in full: a time
                    # with the hour omitted cannot follow it (truncation omits leading components only)
                    continue
                idx += 1
                if idx % 4 != part:
                    continue
                tvs = [{"h": 6, "m": 31, "s": 1, "frac": "5"}, {"h": 0, "m": 0, "s": 0, "frac": "25"},
                       {"h": 23, "m": 59, "s": 59, "frac": "999999"}]
                for tv in (tvs if tname else [None]):
                    for zname in (None, "Z", "hh:mm", "hhmm"):
                        if zname and not tname:
                            continue
                        ztoks = zforms[zname][0] if zname else []
                        zkind = zforms[zname][1] if zname else "both"
                        zv = {"zsign": "+", "zh": 1, "zm": 0}
                        ttext = ("T" + mtext.render(ttoks, tv)) if tname else ""
                        text = dtext + ttext + (mtext.render(ztoks, zv) if zname else "")
                        # expected truncated properties
                        want = {}
                        for k in dprops:
                            want[_PROP[k]] = Fraction(dv[_TKEY[k]])
                        if tname:
                            for tok in ttoks:
                                if tok == "hh":
                                    want["hour_of_day"] = Fraction(tv["h"])
                                elif tok == "mm":
                                    want["minute_of_hour"] = Fraction(tv["m"])
                                elif tok == "ss":
                                    want["second_of_minute"] = Fraction(tv["s"])
                                elif tok in ("fh", "fm", "fs"):
                                    key = {"fh": "hour_of_day", "fm": "minute_of_hour", "fs": "second_of_minute"}[tok]
                                    want[key] += Fraction(int(tv["frac"]), 10 ** len(tv["frac"]))
                        ctx.state_count += 1
                        check_truncated(ctx, parser, text, want, (1, 0) if zname not in (None, "Z") else ((0, 0) if zname else None),
                                        {"kind": "truncated", "text": text, "dform": dname, "tform": tname, "zform": zname},
                                        {"dform": dname, "tform": tname, "zform": zname, "truncated": True,
                                         "kinds_mixed": not mtext.compatible(dkind, tkind or "both", zkind)})
                        # a parser restricted to basic notation refuses every form that exists only in extended notation
                        if "extended" in (dkind, tkind, zkind):
                            ctx.transitions += 1
                            try:
                                got = parser_bo.parse(text)
                                ctx.violation("basic_only_refuses_extended", {"dform": dname, "tform": tname, "zform": zname,
                                                                              "truncated": True},
                                              {"kind": "truncated", "text": text, "dform": dname, "tform": tname, "zform": zname,
                                               "basic_only": True}, "refused", impl.sstr(got))
                            except ValueError:
                                ctx.traces += 1
                            except Exception as ex:
                                ctx.violation("total", {"exc": type(ex).__name__, "truncated": True},
                                              {"kind": "truncated", "text": text, "basic_only": True}, "ValueError", repr(ex))


def check_truncated(ctx, parser, text, want, zone, case, sig):
    ctx.transitions += 1
    impl._H.ticks = 0
    try:
        p = parser.parse(text)
    except ValueError as ex:
        ctx.violation("accepts_truncated_form", sig, case, "accepted", "raised %s: %s" % (type(ex).__name__, ex))
        return
    except Exception as ex:
        ctx.violation("total", dict(sig, exc=type(ex).__name__), case, "parse returns or raises ValueError", repr(ex))
        return
    ctx.traces += 1
    if not p.truncated:
        ctx.violation("truncated_flag", sig, case, "truncated", impl.sstr(p))
        return
    props = p.get_truncated_properties()
    got = {k: Fraction(v) for k, v in props.items()}
    if got.keys() != want.keys() or any(abs(got[k] - want[k]) > FTOL for k in want):
        ctx.violation("truncated_properties", sig, case, {k: str(v) for k, v in want.items()},
                      {k: str(v) for k, v in got.items()})
    tz = p.time_zone
    if zone is None:
        if not tz.unknown:
            ctx.violation("truncated_zone", sig, case, "unknown", [tz.hours, tz.minutes])
    elif tz.unknown or (tz.hours, tz.minutes) != zone:
        ctx.violation("truncated_zone", sig, case, list(zone), [tz.hours, tz.minutes, tz.unknown])
    ctx.transitions += 1
    try:
        back = str(parser.parse(text, dump_as_parsed=True))
        if back != text:
            ctx.violation("truncated_dump_as_parsed", sig, case, text, back)
    except Exception as ex:
        ctx.violation("truncated_dump_as_parsed", dict(sig, exc=type(ex).__name__), case, text, repr(ex))
    ctx.outcome("truncated_form", "%s|%s" % (sig["dform"], sig["tform"]))


def replay_case(case, ctx):
    impl.set_mode(None)
    k = case["kind"]
    if k == "truncated":
        # re-run the whole truncated slice that contains it (cheap) and keep only this text
        for part in range(4):
            sub = type(ctx)(ctx.check_id, ctx.tier, ctx.seed)
            run_truncated(sub, part)
            for v in sub.violations:
                if v["case"]["text"] == case["text"]:
                    ctx.violations.append(v)
        return
    units_ = {"form": [u for u in units("quick") if u[0] == "forms"], "year": [u for u in units("quick") if u[0] == "years"],
              "day": [("days", 0)], "time": [u for u in units("quick") if u[0] == "times"],
              "fraction": [u for u in units("thorough") if u[0] == "fractions"],
              "zone": [u for u in units("quick") if u[0] == "zones"], "mixing": [("mixing",)],
              "zone_sequence": [("zone_sequence",)]}[k]
    for u in units_:
        if k == "form" and (CONFIGS[u[1]]["name"] != case["cfg"] or u[2] != case["seam"]):
            continue
        if k == "year" and CONFIGS[u[1]]["name"] != case["cfg"]:
            continue
        sub = type(ctx)(ctx.check_id, ctx.tier, ctx.seed)
        run_unit(u, sub)
        for v in sub.violations:
            if v["case"].get("text") == case["text"] and v["case"].get("cfg") == case.get("cfg"):
                ctx.violations.append(v)


def vacuity(tier, counters, outcomes):
    if outcomes.get("form", 0) < 300:
        return "fewer than 300 distinct date x time x zone forms explored"
    if outcomes.get("truncated_form", 0) < 100:
        return "fewer than 100 truncated date x time forms explored"
    return None


def describe(tier):
    return {
        "rule": "layer 1: full cross product date form (complete+reduced, basic/extended, expanded or not) x time form "
                "(none + 15) x zone form (none, Z, +-hh, +-hhmm, +-hh:mm) respecting notation matching, x covering value "
                "vectors, in 8 parser configurations (x 4 system zones for the default one); layer 2: every year "
                "0000-9999 and -9999..9999 (+ ends) in 12 year-bearing forms for 1/2/3 expanded digits, every day of 7 "
                "years in 6 complete forms, every hh:mm:ss of a day, all 1-3 digit fractions (+ boundaries; thorough: "
                "all 10^6 six-digit fractions) in 3 decimal forms, every legal offset in 3 zone forms; all notation "
                "mixtures refused; truncated date forms x all time forms x zone forms",
        "bounds": {"fraction_digits_decoded": 9, "fraction_digits_reproduced": 6, "configs": [c["name"] for c in CONFIGS]},
        "alphabet_sizes": {"date_forms": len(mtext.date_forms()), "time_forms": len(mtext.time_forms()),
                           "zone_forms": len(mtext.zone_forms()), "truncated_date_forms": len(mtext.truncated_date_forms()),
                           "truncated_time_forms": len(mtext.truncated_time_forms())},
        "exhaustive": True,
        "assumptions": ["decimal fields are compared to 1e-9 of the unit (one float rounding of 'h + 0.ddd')",
                        "'-00:00', '-00' and a minus sign on year zero decode to zero but are exempt from the text round trip"],
    }
