"""C03 - calendar, ordinal and ISO-week dates are faithful views of one day.

State space: (mode spelling, day). Transitions: the six conversion functions, the TimePoint
to_*/get_* conversions from each of the three representations, and the per-year queries.
Oracle: reference model M (closed forms) + round trips.
"""
from isomc import impl, alphabets as A, refmodel as M

ID = "C03"
TITLE = "Calendar, ordinal and ISO-week dates are faithful views of one day"
D = impl.D


def _year_sets(tier):
    """{spelling: sorted list of years}"""
    out = {}
    for sp in A.SPELLINGS:
        kind = M.MODE_KIND[sp]
        canonical = sp == A.MODE_OF[kind]
        ys = set()
        if tier == "quick":
            if not canonical:
                # the CF spellings must behave like their canonical twins everywhere: near and far years
                ys.update(range(1999, 2006))
                ys.update([-401, -400, 0, 1599, 1600, 1799, 1800, 2199, 2200, 2399, 2400, 4600, 9999])
            elif kind == "greg":
                ys.update(range(2000, 2400))
                ys.update(A.Y_B)
                ys.update(A.Y_EXP)
            else:
                ys.update(range(1990, 2011))
                ys.update(range(-3, 4))
                ys.update([9999, 10000, -10000, 999999, -999999])
        else:
            if kind == "greg":
                for a, b in ((2000, 2399), (1600, 1999), (-200, 199)):
                    ys.update(range(a, b + 1))
                ys.update(A.Y_B)
            else:
                ys.update(range(1990, 2011))
                ys.update(range(-10, 11))
                ys.update(y for y in A.Y_B if abs(y) < 3000)
            for c0 in (9999, -9999, 999999, -999999):
                ys.update(range(c0 - 2, c0 + 3))
        out[sp] = sorted(ys)
    return out


def units(tier):
    us = []
    for sp, ys in _year_sets(tier).items():
        for i in range(0, len(ys), 8):
            us.append(("days", sp, ys[i:i + 8]))
    # days_in_year_range over all pairs in a window
    lo, hi, width = (-410, 410, 420)
    modes = [A.MODE_OF[k] for k in A.KINDS] if tier == "quick" else A.SPELLINGS
    for sp in modes:
        for a0 in range(lo, hi + 1, 40):
            us.append(("range", sp, a0, min(a0 + 39, hi), hi, width))
        us.append(("range_far", sp))
    # the same queries in mode A, then B, then A again within one process (answers must follow the active mode)
    canon = [A.MODE_OF[k] for k in A.KINDS]
    for a in canon:
        for b in canon:
            if a != b:
                us.append(("switch", a, b))
    return us


def _chk(ctx, name, got, want, case):
    ctx.t()
    if got != want:
        ctx.violation(name, {"fn": name}, case, expected=want, observed=got)


def _call(ctx, name, fn, args, want, case):
    ctx.t()
    try:
        got = fn(*args)
    except Exception as e:  # totality
        ctx.violation(name, {"fn": name, "exc": type(e).__name__}, case, expected=want,
                      observed="raised %s: %s" % (type(e).__name__, e))
        return
    if isinstance(got, list):
        got = tuple(got)
    if got != want:
        ctx.violation(name, {"fn": name}, case, expected=want, observed=got)


def _day(ctx, sp, c, dn, point_level):
    y, m, d = c.cal_from_dn(dn)
    _, doy = c.ord_from_dn(dn)
    wk = c.week_from_dn(dn)
    case = lambda: {"kind": "day", "mode": sp, "dn": dn}  # noqa: E731
    impl._H.ticks = 0
    ctx.state_count += 1
    ctx.sample(lambda: {"mode": sp, "cal": [y, m, d], "ord": [y, doy], "week": list(wk)})
    _call(ctx, "ord_from_cal", D.get_ordinal_date_from_calendar_date, (y, m, d), (y, doy), case)
    _call(ctx, "week_from_cal", D.get_week_date_from_calendar_date, (y, m, d), wk, case)
    _call(ctx, "cal_from_ord", D.get_calendar_date_from_ordinal_date, (y, doy), (y, m, d), case)
    _call(ctx, "week_from_ord", D.get_week_date_from_ordinal_date, (y, doy), wk, case)
    _call(ctx, "cal_from_week", D.get_calendar_date_from_week_date, wk, (y, m, d), case)
    _call(ctx, "ord_from_week", D.get_ordinal_date_from_week_date, wk, (y, doy), case)
    ctx.outcome("weekday", wk[2])
    ctx.outcome("week", wk[1])
    if wk[0] != y:
        ctx.count("days_with_week_year_ne_calendar_year")
    if not point_level:
        return
    reps = {"cal": (y, m, d), "ord": (y, doy), "week": wk}
    ned = 0 if 0 <= y <= 9999 and 0 <= wk[0] <= 9999 else 2
    for rep, f in reps.items():
        ctx.t()
        try:
            p = impl.build_point({"rep": rep, "f": list(f), "ned": ned})
        except Exception as e:
            ctx.violation("construct", {"rep": rep, "exc": type(e).__name__}, case, expected="accepted",
                          observed="raised %s: %s" % (type(e).__name__, e))
            continue
        ctx.trace()
        for to, meth, getter in (("cal", "to_calendar_date", "get_calendar_date"),
                                 ("ord", "to_ordinal_date", "get_ordinal_date"),
                                 ("week", "to_week_date", "get_week_date")):
            name = "point_%s_to_%s" % (rep, to)
            ctx.t(2)
            try:
                q = getattr(p, meth)()
                got = impl.alpha(q)
                g2 = tuple(getattr(p, getter)())
            except Exception as e:
                ctx.violation(name, {"fn": name, "exc": type(e).__name__}, case, expected=reps[to],
                              observed="raised %s: %s" % (type(e).__name__, e))
                continue
            if got.rep != to or got.f != reps[to] or g2 != reps[to]:
                ctx.violation(name, {"fn": name}, case, expected=reps[to],
                              observed={"to": [got.rep, list(got.f)], "get": list(g2)})
                continue
            # ... and nothing of the old representation may linger in it: slot for slot it is the value the
            # constructor builds from the target fields (a stale field would steer later carries)
            try:
                twin = impl.build_point({"rep": to, "f": list(reps[to]), "ned": ned})
                if impl.canon_point(q) != impl.canon_point(twin):
                    ctx.violation("converted_is_clean", {"fn": name}, case, repr(impl.canon_point(twin)[:10]),
                                  repr(impl.canon_point(q)[:10]))
            except Exception as e:
                ctx.violation("construct", {"rep": to, "exc": type(e).__name__}, case, "accepted", repr(e))


def _year(ctx, sp, c, y):
    case = lambda: {"kind": "year", "mode": sp, "y": y}  # noqa: E731
    # the leap *behaviour* is what the property fixes: year length and month lengths
    _call(ctx, "days_in_year", D.get_days_in_year, (y,), c.year_len(y), case)
    for m in range(1, 13):
        _call(ctx, "days_in_month", D.get_days_in_month, (m, y), c.month_len(y, m), case)
    if c.kind == "greg":
        _call(ctx, "is_leap_year", D.get_is_leap_year, (y,), c.is_leap(y), case)
    _call(ctx, "weeks_in_year", D.get_weeks_in_year, (y,), c.weeks_in_year(y), case)
    _call(ctx, "week_start_cal", D.get_calendar_date_week_date_start, (y,),
          c.cal_from_dn(c.week_year_start(y)), case)
    _call(ctx, "week_start_ord", D.get_ordinal_date_week_date_start, (y,),
          c.ord_from_dn(c.week_year_start(y)), case)
    ctx.outcome("year_len", c.year_len(y))
    ctx.outcome("weeks_in_year", c.weeks_in_year(y))
    ctx.outcome("jan1_weekday", c.weekday(c.year_start(y)))


def run_unit(unit, ctx):
    kind_u = unit[0]
    sp = unit[1]
    if kind_u == "switch":
        for spx in (unit[1], unit[2], unit[1]):
            impl.set_mode(spx)
            cx = M.cal(spx)
            for y in (1999, 2000, 2001, 2004, 2005):
                _year(ctx, spx, cx, y)
                for doy in A.days_boundary(cx, y):
                    _day(ctx, spx, cx, cx.dn_from_ord(y, doy), False)
            for a, b in ((1999, 2004), (2000, 2000), (1996, 2005), (-4, 4)):
                ctx.t()
                got, want = D.get_days_in_year_range(a, b), cx.days_in_year_range(a, b)
                if got != want:
                    ctx.violation("days_in_year_range", {"fn": "days_in_year_range", "switch": True},
                                  {"kind": "switch", "mode": spx, "a": unit[1], "b": unit[2]}, want, got)
        return
    impl.set_mode(sp)
    c = M.cal(sp)
    if kind_u == "days":
        for y in unit[2]:
            _year(ctx, sp, c, y)
            start = c.year_start(y)
            n = c.year_len(y)
            # every day; TimePoint-level conversions on every day too
            for dn in range(start, start + n):
                _day(ctx, sp, c, dn, True)
        # month tables with the symbolic year arguments
        case = lambda: {"kind": "month_tables", "mode": sp}  # noqa: E731
        for m in range(1, 13):
            _call(ctx, "days_in_month_leap_arg", D.get_days_in_month, (m, "leap"), c.leap[m - 1], case)
            _call(ctx, "days_in_month_none_arg", D.get_days_in_month, (m, None), c.common[m - 1], case)
    elif kind_u == "range":
        _, _, a0, a1, hi, width = unit
        for a in range(a0, a1 + 1):
            for b in range(a - 3, min(a + width, hi) + 1):
                ctx.t()
                got = D.get_days_in_year_range(a, b)
                want = c.days_in_year_range(a, b)
                if got != want:
                    ctx.violation("days_in_year_range", {"fn": "days_in_year_range"},
                                  {"kind": "range", "mode": sp, "a": a, "b": b}, expected=want, observed=got)
            ctx.state_count += 1
        ctx.sample({"mode": sp, "days_in_year_range": [a0, a0 + 5]})
    elif kind_u == "range_far":
        pts = [-999999, -10001, -10000, -9999, -401, -400, -1, 0, 1, 1999, 2000, 2001, 9999, 10000, 999999]
        for a in pts:
            for b in pts:
                ctx.t()
                got = D.get_days_in_year_range(a, b)
                want = c.days_in_year_range(a, b)
                if got != want:
                    ctx.violation("days_in_year_range", {"fn": "days_in_year_range"},
                                  {"kind": "range", "mode": sp, "a": a, "b": b}, expected=want, observed=got)
        ctx.state_count += 1


def replay_case(case, ctx):
    if case["kind"] == "switch":
        run_unit(("switch", case["a"], case["b"]), ctx)
        return
    sp = case["mode"]
    impl.set_mode(sp)
    c = M.cal(sp)
    if case["kind"] == "day":
        _day(ctx, sp, c, case["dn"], True)
    elif case["kind"] == "year":
        _year(ctx, sp, c, case["y"])
    elif case["kind"] == "month_tables":
        for m in range(1, 13):
            _call(ctx, "days_in_month_leap_arg", D.get_days_in_month, (m, "leap"), c.leap[m - 1], case)
            _call(ctx, "days_in_month_none_arg", D.get_days_in_month, (m, None), c.common[m - 1], case)
    elif case["kind"] == "range":
        got = D.get_days_in_year_range(case["a"], case["b"])
        want = c.days_in_year_range(case["a"], case["b"])
        if got != want:
            ctx.violation("days_in_year_range", {}, case, expected=want, observed=got)


def vacuity(tier, counters, outcomes):
    if outcomes.get("weekday", 0) != 7:
        return "not all 7 weekdays seen"
    if outcomes.get("year_len", 0) < 3:
        return "fewer than 3 year lengths seen (360/365/366 expected)"
    if counters.get("days_with_week_year_ne_calendar_year", 0) < 100:
        return "too few days whose ISO week-year differs from the calendar year"
    return None


def describe(tier):
    ys = _year_sets(tier)
    return {
        "rule": "every day of every listed year in every listed mode spelling: six conversion functions, "
                "TimePoint to_*/get_* from each representation, per-year queries; "
                "get_days_in_year_range for all a in [-410,410], b in [a-3, a+420] plus far pairs. "
                "A state is one (mode, day) or one (mode, start year of a range).",
        "bounds": {"years_per_spelling": {k: len(v) for k, v in ys.items()},
                   "year_min": min(min(v) for v in ys.values()), "year_max": max(max(v) for v in ys.values()),
                   "range_window": [-410, 410, 420]},
        "alphabet_sizes": {"spellings": len(ys)},
        "exhaustive": True,
        "assumptions": ["conversion of *invalid* dates is not judged here (C09 judges rejection)"],
    }
