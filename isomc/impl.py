"""Binding to the implementation under test: builders from JSON-able descriptors, the abstraction
alpha (library object -> model value, through public accessors), canonical keys, horizon, seams.
"""
import signal
from fractions import Fraction

from isomc.runner import HorizonExceeded, bind_repo
from isomc import refmodel as M

bind_repo()
from metomi.isodatetime import data as D  # noqa: E402
from metomi.isodatetime import timezone as TZMOD  # noqa: E402

TimePoint, Duration, TimeZone, TimeRecurrence = D.TimePoint, D.Duration, D.TimeZone, D.TimeRecurrence
CAL = D.Calendar.default()


def set_mode(mode):
    CAL.set_mode(mode)


def reset_mode():
    CAL.set_mode(None)


def mode_kind():
    return M.MODE_KIND[CAL.mode.lower()]


# ------------------------------------------------------------------------------------------------
# horizon: tick budget on TimePoint._tick_over + wall-clock watchdog
# ------------------------------------------------------------------------------------------------
class _H:
    ticks = 0
    budget = 200000
    max_seen = 0


_orig_tick_over = TimePoint._tick_over


def _counted_tick_over(self, *a, **k):
    _H.ticks += 1
    if _H.ticks > _H.budget:
        raise HorizonExceeded("more than %d tick-overs in one execution" % _H.budget)
    return _orig_tick_over(self, *a, **k)


TimePoint._tick_over = _counted_tick_over


def tick_reset():
    if _H.ticks > _H.max_seen:
        _H.max_seen = _H.ticks
    _H.ticks = 0


def ticks():
    return _H.ticks


def max_ticks_seen():
    tick_reset()
    return _H.max_seen


def _alarm(signum, frame):
    raise HorizonExceeded("watchdog: execution exceeded wall-clock horizon")


signal.signal(signal.SIGALRM, _alarm)


def guarded(fn, *args, seconds=60.0, **kw):
    """Run fn under the tick budget and a wall-clock watchdog. Raises HorizonExceeded."""
    tick_reset()
    signal.setitimer(signal.ITIMER_REAL, seconds)
    try:
        return fn(*args, **kw)
    finally:
        signal.setitimer(signal.ITIMER_REAL, 0)


# ------------------------------------------------------------------------------------------------
# descriptors -> real objects
#   point: {"rep": "cal"|"ord"|"week", "f": [..], "t": [form, ...], "tz": [h, m], "ned": n}
#   time forms: ["hms", h, m, s] ["hmsf", h, m, s, frac] ["hmf", h, m, frac] ["hf", h, frac]
# ------------------------------------------------------------------------------------------------
_DATE_KW = {"cal": ("year", "month_of_year", "day_of_month"),
            "ord": ("year", "day_of_year"),
            "week": ("year", "week_of_year", "day_of_week")}


def time_kwargs(t):
    form = t[0]
    if form == "hms":
        return {"hour_of_day": t[1], "minute_of_hour": t[2], "second_of_minute": t[3]}
    if form == "hmsf":
        return {"hour_of_day": t[1], "minute_of_hour": t[2], "second_of_minute": t[3],
                "second_of_minute_decimal": t[4]}
    if form == "hmf":
        return {"hour_of_day": t[1], "minute_of_hour": t[2], "minute_of_hour_decimal": t[3]}
    if form == "hf":
        return {"hour_of_day": t[1], "hour_of_day_decimal": t[2]}
    raise ValueError(form)


def time_tod(t):
    """Exact time of day (Fraction seconds) denoted by a time-form descriptor."""
    form = t[0]
    if form == "hms":
        return Fraction(t[1] * 3600 + t[2] * 60 + t[3])
    if form == "hmsf":
        return Fraction(t[1] * 3600 + t[2] * 60) + Fraction(float(t[3]) + float(t[4]))
    if form == "hmf":
        return Fraction(t[1] * 3600) + Fraction(float(t[2]) + float(t[3])) * 60
    if form == "hf":
        return Fraction(float(t[1]) + float(t[2])) * 3600
    raise ValueError(form)


def point_kwargs(desc):
    kw = dict(zip(_DATE_KW[desc["rep"]], desc["f"]))
    kw.update(time_kwargs(desc.get("t", ["hms", 0, 0, 0])))
    tz = desc.get("tz", [0, 0])
    kw["time_zone_hour"], kw["time_zone_minute"] = tz[0], tz[1]
    if desc.get("ned"):
        kw["num_expanded_year_digits"] = desc["ned"]
    return kw


def build_point(desc):
    return TimePoint(**point_kwargs(desc))


def build_duration(desc):
    """desc: dict of Duration kwargs."""
    return Duration(**desc)


def model_point(desc, kind):
    """Model value of a descriptor, computed by M only: (dn, tod, offset_minutes)."""
    c = M.cal(kind)
    return c.dn_from(desc["rep"], desc["f"]), time_tod(desc.get("t", ["hms", 0, 0, 0])), \
        desc.get("tz", [0, 0])[0] * 60 + desc.get("tz", [0, 0])[1]


# ------------------------------------------------------------------------------------------------
# alpha
# ------------------------------------------------------------------------------------------------
class AP:
    """Abstract (model) view of a TimePoint, read through public accessors only."""
    __slots__ = ("rep", "f", "h", "m", "s", "off", "tzh", "tzm", "form", "ned", "kind",
                 "date_ok", "time_ok", "zone_ok", "dn", "tod", "inst", "why")

    def valid(self):
        return self.date_ok and self.time_ok and self.zone_ok

    def brief(self):
        return {"rep": self.rep, "f": list(self.f), "h": _num(self.h), "m": _num(self.m), "s": _num(self.s),
                "tz": [self.tzh, self.tzm]}


def _num(x):
    if x is None:
        return None
    if isinstance(x, float) and x == int(x):
        return int(x)
    return x


def _exact_int(x):
    return isinstance(x, int) and not isinstance(x, bool) or (isinstance(x, float) and x == int(x))


def alpha(p, kind=None):
    a = AP()
    a.kind = kind or mode_kind()
    c = M.cal(a.kind)
    if p.get_is_calendar_date():
        a.rep, a.f = "cal", (p.year, p.month_of_year, p.day_of_month)
    elif p.get_is_ordinal_date():
        a.rep, a.f = "ord", (p.year, p.day_of_year)
    elif p.get_is_week_date():
        a.rep, a.f = "week", (p.year, p.week_of_year, p.day_of_week)
    else:
        a.rep, a.f = None, ()
    a.why = None
    a.date_ok = a.rep is not None and all(_exact_int(x) for x in a.f)
    if a.date_ok:
        a.f = tuple(int(x) for x in a.f)
        a.date_ok = c.valid(a.rep, a.f)
    if not a.date_ok:
        a.why = "date fields %r not a real %s date in %s" % (a.f, a.rep, a.kind)
    a.h, a.m, a.s = p._hour_of_day, p._minute_of_hour, p._second_of_minute
    a.ned = p.num_expanded_year_digits
    if a.s is not None:
        a.form = "hms" if float(a.s) == int(a.s) else "hmsf"
    elif a.m is not None:
        a.form = "hmf"
    else:
        a.form = "hf"
    try:
        fh = Fraction(a.h)
        fm = None if a.m is None else Fraction(a.m)
        fs = None if a.s is None else Fraction(a.s)
        a.time_ok = M.valid_time(fh, fm, fs)
        # when a lower unit is present the higher ones must be whole
        if a.m is not None and fh.denominator != 1:
            a.time_ok = False
        if a.s is not None and fm.denominator != 1:
            a.time_ok = False
        a.tod = fh * 3600 + (fm or 0) * 60 + (fs or 0)
    except (TypeError, ValueError):
        a.time_ok, a.tod = False, None
    if not a.time_ok and a.why is None:
        a.why = "time fields h=%r m=%r s=%r out of range" % (a.h, a.m, a.s)
    tz = p.time_zone
    a.tzh, a.tzm = tz.hours, tz.minutes
    a.zone_ok = (not tz.unknown) and _exact_int(a.tzh) and _exact_int(a.tzm) and M.valid_zone(a.tzh, a.tzm)
    if not a.zone_ok and a.why is None:
        a.why = "zone (%r, %r) invalid" % (a.tzh, a.tzm)
    a.off = a.tzh * 60 + a.tzm if a.zone_ok else None
    if a.date_ok and a.tod is not None and a.off is not None:
        a.dn = c.dn_from(a.rep, a.f)
        a.inst = M.instant(a.dn, a.tod, a.off)
    else:
        a.dn, a.inst = None, None
    return a


def _fr(x):
    """Exact rational of an int/float, staying an int when integral (fast path)."""
    if isinstance(x, int):
        return x
    if x.is_integer():
        return int(x)
    return Fraction(x)


def alpha_fast(p, c):
    """Fast abstraction for the dense loops: returns (rep, f, h, m, s, off_minutes, dn, inst, problem).
    Same meaning as alpha(); ints stay ints, Fractions only where a field is fractional."""
    if p._month_of_year is not None:
        rep, f = "cal", (p._year, p._month_of_year, p._day_of_month)
    elif p._day_of_year is not None:
        rep, f = "ord", (p._year, p._day_of_year)
    elif p._week_of_year is not None:
        rep, f = "week", (p._year, p._week_of_year, p._day_of_week)
    else:
        return None, (), None, None, None, None, None, None, "no date representation"
    h, m, s = p._hour_of_day, p._minute_of_hour, p._second_of_minute
    tz = p._time_zone
    problem = None
    for x in f:
        if type(x) is not int:
            if isinstance(x, float) and x.is_integer():
                continue
            problem = "non-integral date field %r" % (f,)
    if problem is None:
        f = tuple(int(x) for x in f)
        if not c.valid(rep, f):
            problem = "date fields %r not a real %s date in %s" % (f, rep, c.kind)
    fh = _fr(h)
    fm = None if m is None else _fr(m)
    fs = None if s is None else _fr(s)
    if not M.valid_time(fh, fm, fs) or (m is not None and type(fh) is not int) or (
            s is not None and type(fm) is not int):
        problem = problem or "time fields h=%r m=%r s=%r out of range" % (h, m, s)
    tod = fh * 3600 + (fm or 0) * 60 + (fs or 0)
    tzh, tzm = tz._hours, tz._minutes
    if tz._unknown or type(tzh) is not int or type(tzm) is not int or not M.valid_zone(tzh, tzm):
        problem = problem or "zone (%r, %r) invalid" % (tzh, tzm)
        return rep, f, h, m, s, None, None, None, problem
    off = tzh * 60 + tzm
    if problem is not None and "date" in problem:
        return rep, f, h, m, s, off, None, None, problem
    dn = c.dn_from(rep, f)
    return rep, f, h, m, s, off, dn, dn * 86400 + tod - off * 60, problem


def sstr(o):
    """str() for messages that never raises (a year outside the dumper's range makes str() raise)."""
    try:
        return str(o)
    except Exception as e:  # noqa
        try:
            return "<unprintable %s: %r>" % (type(e).__name__, canon(o))
        except Exception:
            return "<unprintable>"


def fresh_twin(q, **extra):
    """A TimePoint built through the constructor from q's (whole-second) fields, or None if q has fractional fields.
    Differential oracle for derived values: the twin and q must answer every observer alike."""
    h, m, s = q._hour_of_day, q._minute_of_hour, q._second_of_minute
    for x in (h, m, s):
        if x is None or (isinstance(x, float) and not x.is_integer()):
            return None
    kw = {"num_expanded_year_digits": q._num_expanded_year_digits, "year": q._year, "hour_of_day": int(h),
          "minute_of_hour": int(m), "second_of_minute": int(s), "time_zone_hour": q._time_zone._hours,
          "time_zone_minute": q._time_zone._minutes}
    if q._month_of_year is not None:
        kw.update(month_of_year=q._month_of_year, day_of_month=q._day_of_month)
    elif q._day_of_year is not None:
        kw.update(day_of_year=q._day_of_year)
    else:
        kw.update(week_of_year=q._week_of_year, day_of_week=q._day_of_week)
    kw.update(extra)
    return TimePoint(**kw)


def canon_point(p):
    """Exact key of a TimePoint: every slot, the zone by its slots; floats keep their type."""
    tz = p._time_zone
    return (p._num_expanded_year_digits, p._year, p._month_of_year, p._day_of_year, p._day_of_month,
            p._day_of_week, p._week_of_year, _tv(p._hour_of_day), _tv(p._minute_of_hour),
            _tv(p._second_of_minute), p._truncated, p._truncated_property, p._truncated_dump_format,
            p._dump_format, tz._hours, tz._minutes, tz._unknown)


def _tv(x):
    return (type(x).__name__, x)


def alpha_duration(d):
    """(years, months, exact seconds as Fraction, is_week_form)."""
    if d.get_is_in_weeks():
        return 0, 0, Fraction(d.weeks) * 7 * 86400, True
    sec = (Fraction(d.days) * 86400 + Fraction(d.hours) * 3600 + Fraction(d.minutes) * 60 +
           Fraction(d.seconds))
    return d.years, d.months, sec, False


def duration_len(desc):
    """Exact length in seconds (Fraction) of an exact-duration descriptor (Duration kwargs)."""
    return (Fraction(desc.get("weeks", 0)) * 7 * 86400 + Fraction(desc.get("days", 0)) * 86400 +
            Fraction(desc.get("hours", 0)) * 3600 + Fraction(desc.get("minutes", 0)) * 60 +
            Fraction(desc.get("seconds", 0)))


# ------------------------------------------------------------------------------------------------
# canonical keys (exact: every slot, recursively; floats by repr)
# ------------------------------------------------------------------------------------------------
def canon(o):
    if o is None or isinstance(o, (bool, int, str)):
        return o
    if isinstance(o, float):
        return ("f", repr(o))
    if isinstance(o, (list, tuple)):
        return tuple(canon(x) for x in o)
    if isinstance(o, (TimePoint, Duration, TimeRecurrence)):
        slots = []
        for klass in type(o).__mro__:
            for s in getattr(klass, "__slots__", ()):
                if s not in slots:
                    slots.append(s)
        return (type(o).__name__,) + tuple((s, canon(getattr(o, s, "<unset>"))) for s in slots)
    return ("?", repr(o))


# ------------------------------------------------------------------------------------------------
# seams
# ------------------------------------------------------------------------------------------------
class FakeTime:
    """Stands in for the `time` module inside metomi.isodatetime.timezone."""

    def __init__(self, timezone=0, altzone=0, daylight=0, isdst=0, now=0.0):
        self.timezone, self.altzone, self.daylight, self._isdst, self._now = (
            timezone, altzone, daylight, isdst, now)

    def localtime(self, *a):
        class _T:
            pass
        t = _T()
        t.tm_isdst = self._isdst
        return t

    def time(self):
        return self._now


class system_zone:
    """with system_zone(offset_minutes): the library sees a fixed, DST-free system UTC offset."""

    def __init__(self, offset_minutes=0, fake=None):
        self.fake = fake or FakeTime(timezone=-offset_minutes * 60, altzone=-offset_minutes * 60)

    def __enter__(self):
        self.saved = TZMOD.time
        TZMOD.time = self.fake
        return self.fake

    def __exit__(self, *exc):
        TZMOD.time = self.saved
        return False


def clear_caches():
    from metomi.isodatetime import dumpers
    n = 0
    for mod in (D, dumpers):
        for name in dir(mod):
            obj = getattr(mod, name)
            if hasattr(obj, "cache_clear"):
                obj.cache_clear()
                n += 1
    for name in dir(dumpers.TimePointDumper):
        obj = getattr(dumpers.TimePointDumper, name, None)
        if hasattr(obj, "cache_clear"):
            obj.cache_clear()
            n += 1
    return n
