"""C08 - writing a time point out and reading it back is lossless.

States: valid non-truncated points (deviation-bounded pool + every offset + six-digit fraction
boundaries + derived operands). Transitions: str, parse(impl.sstr(p)), str again; dump(p, fmt) and parse
for every complete custom format. Oracle: round-trip identities.
"""
from fractions import Fraction

from isomc import impl, pools, mtext, collide, alphabets as A, refmodel as M

ID = "C08"
TOL = Fraction(1, 1000000)
TITLE = "Writing a time point out and reading it back is lossless"

FRACTIONS6 = [0.000001, 0.000002, 0.1, 0.123456, 0.25, 0.333333, 0.499999, 0.5, 0.500001, 0.75, 0.9, 0.999998, 0.999999]


def _parser(ned):
    from metomi.isodatetime.parsers import TimePointParser
    return TimePointParser(num_expanded_year_digits=ned or 2)


_PARSERS = {}


def parser_for(ned):
    if ned not in _PARSERS:
        _PARSERS[ned] = _parser(ned)
    return _PARSERS[ned]


def _configs(tier):
    k = 2 if tier == "quick" else 4
    for kind, rep, ts, zs, nd, years, days in pools.configs(k):
        if tier == "quick":
            years = A.Y_S if nd else A.Y_B
            if nd >= 2:
                days = "small"
        else:
            years = A.Y_B if nd <= 2 else A.Y_S
            days = "boundary" if nd <= 2 else "small"
        yield kind, rep, ts, zs, nd, years, days
    if tier == "quick":
        # the configurations with 3 and 4 deviations on a compact pool (thorough explores them in full above)
        for kind, rep, ts, zs, nd, years, days in pools.configs(4):
            if nd >= 3:
                yield (kind, rep, CORNER_T if ts is pools.T_DEV else [pools.T_WHOLE[0], pools.T_WHOLE[-1]],
                       CORNER_Z if zs is pools.Z_DEV else zs, nd, CORNER_Y, "small")


CORNER_Y = [2000, 2003, -1]
CORNER_T = pools.T_24 + [["hf", 23, 0.5], ["hmf", 12, 30, 0.3], ["hmsf", 23, 59, 59, 0.999999]]
CORNER_Z = [[-5, -30], [99, 59]]


def units(tier):
    us = []
    for ci, (kind, rep, ts, zs, nd, years, days) in enumerate(_configs(tier)):
        ys = list(years)
        for i in range(0, len(ys), 6):
            us.append(("pool", ci, ys[i:i + 6]))
    us.append(("custom_format",))
    for rep in pools.REPS:
        us.append(("expanded", rep))
        us.append(("offsets", rep))
        us.append(("fractions", rep))
    for kind in A.KINDS:
        for rep in pools.REPS:
            us.append(("dumps", kind, rep))
            us.append(("dumps_yearedge", kind, rep))
            us.append(("derived", kind, rep))
    return us


def same_fields(p, q):
    ka, kb = impl.canon_point(p), impl.canon_point(q)
    # numeric equality of every field (1 vs 1.0 is the same value); dump formats are not part of the value
    def norm(k):
        return tuple((x[1] if isinstance(x, tuple) else x) for x in k[1:10]) + k[14:17]
    return norm(ka) == norm(kb)


def check_roundtrip(ctx, kind, pdesc, p=None, via=None):
    case = lambda: {"kind": "rt", "mode": kind, "p": pdesc, "via": via}  # noqa: E731
    sig = {"rep": pdesc["rep"], "tform": pdesc["t"][0], "h24": pdesc["t"][1] == 24, "via": via}
    impl._H.ticks = 0
    try:
        if p is None:
            p = impl.build_point(pdesc)
            if via:
                p = collide.derive(impl, p, via)
    except Exception as ex:
        ctx.violation("construct", dict(sig, exc=type(ex).__name__), case, "valid operand", repr(ex))
        return
    ned = p.num_expanded_year_digits
    if (ned == 0 and not 0 <= p.year <= 9999) or abs(p.year) >= 10 ** (4 + ned):
        ctx.count("derived_year_outside_agreed_digits_not_judged")
        return
    ctx.transitions += 3
    impl._H.ticks = 0
    try:
        text = str(p)
        q = parser_for(ned).parse(text)
        text2 = str(q)
    except Exception as ex:
        ctx.violation("total", dict(sig, exc=type(ex).__name__), case, "str and parse work",
                      "raised %s: %s" % (type(ex).__name__, ex))
        return
    ctx.traces += 1
    ctx.outcome("text_len", len(text))
    if not (q == p) or (q != p) or not (p == q):
        ctx.violation("roundtrip_equal", sig, case, text, impl.sstr(q))
    if not same_fields(p, q):
        ctx.violation("roundtrip_fields", sig, case, {"text": text, "fields": repr(impl.canon_point(p)[1:10])},
                      repr(impl.canon_point(q)[1:10]))
    if text2 != text:
        ctx.violation("str_fixpoint", sig, case, text, text2)
    try:
        if hash(q) != hash(p):
            ctx.violation("roundtrip_hash", sig, case, hash(p), hash(q))
    except Exception as ex:
        ctx.violation("total", dict(sig, exc=type(ex).__name__), case, "hash works", repr(ex))
    return p


def _decimal_tod(t):
    """The time of day the descriptor spells, as an exact decimal number of seconds (0.1 means one tenth)."""
    from decimal import Decimal
    if t[0] == "hms":
        return Decimal(t[1] * 3600 + t[2] * 60 + t[3])
    if t[0] == "hmsf":
        return Decimal(t[1] * 3600 + t[2] * 60 + t[3]) + Decimal(repr(t[4]))
    if t[0] == "hmf":
        return Decimal(t[1] * 3600 + t[2] * 60) + Decimal(repr(t[3])) * 60
    return (Decimal(t[1]) + Decimal(repr(t[2]))) * 3600


def _binary(t):
    """The decimal part the descriptor carries is a binary fraction (exactly representable as a float)."""
    return t[0] == "hms" or (float(t[-1]) * 2 ** 20) % 1 == 0


def _fits(value, digits=6):
    """value (a Decimal) has at most `digits` decimal places."""
    return (value * 10 ** digits) % 1 == 0


def _time_forms_for(t):
    """(name, form, same_unit): time forms that spell the point's time of day to its full precision. same_unit: the
    form's last unit is the unit the point itself carries its decimal on (or the point is in whole seconds); otherwise
    the form is *finer* than the point and can still spell its value exactly (within six decimals)."""
    tf = mtext.time_forms()
    tod = _decimal_tod(t)
    own = []
    if t[0] == "hms":
        own += ["hhmmss_basic", "hhmmss_ext", "hhmmss_fc_basic", "hhmmss_fp_ext"]
        if tod % 60 == 0:
            own += ["hhmm_basic", "hhmm_ext"]
        if tod % 3600 == 0:
            own += ["hh"]
    elif t[0] == "hmsf":
        own += ["hhmmss_fc_basic", "hhmmss_fc_ext", "hhmmss_fp_basic", "hhmmss_fp_ext"]
    elif t[0] == "hmf":
        own += ["hhmm_fc_basic", "hhmm_fc_ext", "hhmm_fp_basic", "hhmm_fp_ext"]
    else:
        own += ["hh_fc", "hh_fp"]
    finer = []
    if t[0] in ("hf", "hmf") and t[1] != 24:
        if t[0] == "hf":
            if tod % 60 == 0:
                finer += ["hhmm_basic", "hhmm_ext"]
            if _fits(tod / 60):
                finer += ["hhmm_fc_ext", "hhmm_fp_basic"]
        if tod % 1 == 0:
            finer += ["hhmmss_basic", "hhmmss_ext"]
        if _fits(tod):
            finer += ["hhmmss_fc_ext", "hhmmss_fp_basic"]
    # decimal forms on a *coarser* unit than the point's own can still carry the value when it has few enough decimals
    # there (06:30:00 is 6,5 hours; 06:30:30 is 30,5 minutes past six)
    coarser = []
    if t[1] != 24:
        if t[0] in ("hms", "hmsf", "hmf") and _fits(tod / 3600) and tod % 3600 != 0:
            coarser += ["hh_fc", "hh_fp"]
        if t[0] in ("hms", "hmsf") and _fits(tod / 60) and tod % 60 != 0:
            coarser += ["hhmm_fc_ext", "hhmm_fp_basic"]
    return ([(n, tf[n], True) for n in own] + [(n, tf[n], False) for n in finer] +
            [(n, tf[n], "coarser") for n in coarser])


def check_dumps(ctx, kind, c, pdesc):
    p = impl.build_point(pdesc)
    dn, tod, off = impl.model_point(pdesc, kind)
    inst = dn * 86400 + tod - off * 60
    ned = pdesc.get("ned", 0)
    dumper = impl.D.TIMEPOINT_DUMPER_MAP.get(ned) or impl.D.dumpers.TimePointDumper(ned)
    parser = parser_for(ned)
    zf = mtext.zone_forms()
    zone_names = ["hhmm", "hh:mm", "Z"] + (["hh"] if pdesc["tz"][1] == 0 else [])
    for dname, (dtoks, dkind, cls, drep) in mtext.date_forms().items():
        if cls != "complete" or dname.startswith("x") != bool(ned):
            continue
        for tname, (ttoks, tkind, prec), same_unit in _time_forms_for(pdesc["t"]):
            for zname in zone_names:
                ztoks, zkind = zf[zname]
                if not mtext.compatible(dkind, tkind, zkind):
                    continue
                if zname == "Z" and pdesc["t"][0] == "hf" and off % 15 != 0:
                    continue   # re-zoning a decimal-hour value by a non-quarter-hour offset leaves the exact domain
                if zname == "Z" and same_unit == "coarser" and off % 15 != 0:
                    continue   # (after such a conversion the value no longer has few decimals in the coarser unit)
                if zname == "Z" and off != 0 and not _binary(pdesc["t"]):
                    continue   # (the same for any decimal that is not a binary fraction)
                if zname == "Z" and tname in ("hhmm_basic", "hhmm_ext", "hh") and (
                        (tod - off * 60) % (60 if tname != "hh" else 3600) != 0):
                    continue   # after conversion to UTC this form would no longer carry the full precision
                fmt = mtext.notation(dtoks + [mtext.lit("T")] + ttoks + ztoks)
                case = lambda: {"kind": "dump", "mode": kind, "p": pdesc, "fmt": fmt}  # noqa: E731
                sig = {"dform": dname, "tform": tname, "zform": zname, "h24": pdesc["t"][1] == 24}
                if same_unit == "coarser":
                    sig["decimal_on_coarser_unit_than_point"] = pdesc["t"][0]
                    unit_s = 3600 if tname.startswith("hh_") else 60
                    # exact only when both the point's own decimal and the one to be printed are binary fractions
                    sig["binary_fraction"] = (_binary(pdesc["t"]) and (_decimal_tod(pdesc["t"]) / unit_s * 2 ** 20) % 1 == 0 and
                                              not (unit_s == 3600 and off % 15 != 0))   # (read back: decimal hours in that offset)
                elif not same_unit:
                    sig["finer_than_point"] = pdesc["t"][0]
                    sig["binary_fraction"] = _binary(pdesc["t"])
                ctx.transitions += 2
                impl._H.ticks = 0
                try:
                    text = dumper.dump(p, fmt)
                except Exception as ex:
                    if type(ex).__name__ == "TimePointDumperBoundsError":
                        ctx.count("dump_bounds_refusals")
                        continue
                    ctx.violation("total", dict(sig, exc=type(ex).__name__), case, "dump works", repr(ex))
                    continue
                try:
                    q = parser.parse(text)
                except Exception as ex:
                    ctx.violation("dump_parses_back", dict(sig, exc=type(ex).__name__), case, "parse(dump) works",
                                  {"text": text, "error": "%s: %s" % (type(ex).__name__, ex)})
                    continue
                ctx.traces += 1
                r = impl.alpha_fast(q, c)
                if same_unit or sig["binary_fraction"]:
                    bad = r[8] is not None or r[7] != inst or not (q == p) or hash(q) != hash(p)
                else:
                    bad = r[8] is not None or abs(r[7] - inst) > TOL   # decimal text of a non-binary fraction: to 1 us
                if bad:
                    ctx.violation("dump_roundtrip_instant", sig, case, {"instant": str(inst), "p": impl.sstr(p)},
                                  {"text": text, "parsed": impl.sstr(q), "instant": str(r[7])})
                ctx.outcome("dump_form", dname + tname + zname)


def run_unit(unit, ctx):
    u = unit[0]
    if u == "pool":
        _, ci, ys = unit
        kind, rep, ts, zs, nd, years, days = list(_configs(ctx.tier))[ci]
        impl.set_mode(A.MODE_OF[kind])
        for pdesc in pools.point_descs(kind, rep, ts, zs, ys, days):
            ctx.state_count += 1
            ctx.sample(lambda: {"mode": kind, "p": pdesc})
            check_roundtrip(ctx, kind, pdesc)
    elif u == "custom_format":
        # values that carry a custom dump format (from the parser's dump_as_parsed / dump_format, or the constructor),
        # for every agreed number of expanded year digits, and values derived from them (the format is inherited)
        from metomi.isodatetime.parsers import TimePointParser
        impl.set_mode(None)
        for ned in (1, 2, 3):
            parser = TimePointParser(num_expanded_year_digits=ned)
            big = 10 ** (4 + ned) - 1
            for y in (0, -1, 2015, 12345 % (big + 1), -big, big):
                ydigits = "%s%0*d" % ("-" if y < 0 else "+", 4 + ned, abs(y))
                for text in (ydigits + "-06-07T08:09:10Z", ydigits + "0607T080910+0545", ydigits + "-158T08:09Z",
                             ydigits + "-W23-3T08Z", ydigits + "158T08,5-0030"):
                    ctx.state_count += 1
                    ctx.transitions += 4
                    case = {"kind": "custom", "ned": ned, "text": text}
                    sig = {"ned": ned, "via": "dump_as_parsed"}
                    try:
                        p = parser.parse(text, dump_as_parsed=True)
                        for q, how in ((p, "parsed"), (p + impl.Duration(days=1), "shifted"), (p.to_utc(), "rezoned")):
                            t1 = str(q)
                            back = parser.parse(t1)
                            if not (back == q) or hash(back) != hash(q) or str(parser.parse(t1, dump_as_parsed=True)) != t1:
                                ctx.violation("custom_format_roundtrip", dict(sig, how=how), case, impl.sstr(q),
                                              {"text": t1, "parsed": impl.sstr(back)})
                        if str(p) != text:
                            ctx.violation("custom_format_roundtrip", dict(sig, how="text"), case, text, str(p))
                        ctx.traces += 1
                        # a dump format given to the parser itself (all its results carry it), and one given per call
                        for fmt_p, fmt_c in (("+XCCYY-DDDThh:mm:ss+hh:mm", None), ("+XCCYYMMDDThhmmss+hhmm", "+XCCYY-Www-DThh:mm:ssZ"),
                                             (None, "+XCCYY-MM-DDThh:mm:ss+hh")):
                            sig = {"ned": ned, "via": "parser_dump_format" if fmt_c is None else "call_dump_format"}
                            pf = TimePointParser(num_expanded_year_digits=ned, dump_format=fmt_p)
                            p2 = pf.parse(text, dump_format=fmt_c) if fmt_c else pf.parse(text)
                            if p2._dump_format != (fmt_c or fmt_p):
                                ctx.violation("custom_format_carried", sig, case, fmt_c or fmt_p, p2._dump_format)
                            if fmt_c and fmt_c.endswith("+hh") and p2.time_zone.minutes:
                                continue   # this format cannot spell the minutes of the offset
                            for q, how in ((p2, "parsed"), (p2 + impl.Duration(days=1), "shifted")):
                                ctx.transitions += 2
                                t1 = str(q)
                                back = parser.parse(t1)
                                if not (back == q) or hash(back) != hash(q) or not (back == p if how == "parsed" else True):
                                    ctx.violation("custom_format_roundtrip", dict(sig, how=how), case, impl.sstr(q),
                                                  {"text": t1, "parsed": impl.sstr(back)})
                    except Exception as ex:
                        if type(ex).__name__ == "TimePointDumperBoundsError":
                            ctx.count("dump_bounds_refusals")
                            continue
                        ctx.violation("total", dict(sig, exc=type(ex).__name__), case, "str and parse work",
                                      "raised %s: %s" % (type(ex).__name__, ex))
    elif u == "expanded":
        rep = unit[1]
        impl.set_mode(None)
        for pdesc in pools.point_descs("greg", rep, pools.T_WHOLE[:2] + pools.T_24 + pools.T_DYADIC[:1], [[0, 0], [-5, -30]],
                                       [-999999, -10000, -9999, -1, 0, 1, 9999, 10000, 999999], "small"):
            pdesc = dict(pdesc, ned=2)
            ctx.state_count += 1
            check_roundtrip(ctx, "greg", pdesc)
    elif u == "offsets":
        rep = unit[1]
        impl.set_mode(None)
        c = M.cal("greg")
        for (dn, t) in ((c.dn_from_cal(2000, 1, 1), ["hms", 0, 0, 0]), (c.dn_from_cal(2015, 12, 31), ["hms", 23, 59, 59]),
                        (c.dn_from_cal(2016, 2, 29), ["hf", 6, 0.25])):
            f = list(c.from_dn(rep, dn))
            for z in A.z_all():
                ctx.state_count += 1
                check_roundtrip(ctx, "greg", {"rep": rep, "f": f, "t": t, "tz": list(z)})
    elif u == "fractions":
        rep = unit[1]
        impl.set_mode(None)
        c = M.cal("greg")
        f = list(c.from_dn(rep, c.dn_from_cal(2015, 12, 31)))
        for fr in FRACTIONS6 + [i / 1000.0 for i in range(1000)]:
            for t in (["hf", 0, fr], ["hf", 23, fr], ["hmf", 12, 59, fr], ["hmsf", 23, 59, 59, fr], ["hmsf", 0, 0, 0, fr]):
                ctx.state_count += 1
                check_roundtrip(ctx, "greg", {"rep": rep, "f": f, "t": t, "tz": [5, 45]})
    elif u == "dumps":
        _, kind, rep = unit
        impl.set_mode(A.MODE_OF[kind])
        c = M.cal(kind)
        ts = (pools.T_WHOLE[:1] + [["hms", 12, 30, 0], ["hms", 23, 59, 59]] + pools.T_24 + pools.T_DYADIC + pools.T_GENERAL[:2] +
              [["hf", 11, 0.125]])
        years = [2000, 2004, 9999, 0] if ctx.tier == "quick" else A.Y_S
        for pdesc in pools.point_descs(kind, rep, ts, [[0, 0], [-5, -30], [14, 0], [0, -30]], years, "small"):
            ctx.state_count += 1
            check_dumps(ctx, kind, c, pdesc)
        if rep == "cal":
            for pdesc in pools.point_descs(kind, rep, ts[:2], [[0, 0], [99, 59]], [-1, 10000], "small"):
                check_dumps(ctx, kind, c, dict(pdesc, ned=2))
    elif u == "dumps_yearedge":
        # every complete format (also those of the other two representations) on the days where week-year and calendar
        # year differ or nearly do, within an hour of midnight, so that a "Z" in the format moves the local date
        _, kind, rep = unit
        impl.set_mode(A.MODE_OF[kind])
        c = M.cal(kind)
        years = pools.Y_WEEKCYCLE_Q if ctx.tier == "quick" else pools.Y_WEEKCYCLE
        for pdesc in pools.point_descs(kind, rep, pools.T_EDGE, pools.Z_EDGE, years, "yearedge"):
            ctx.state_count += 1
            check_dumps(ctx, kind, c, pdesc)
    elif u == "derived":
        _, kind, rep = unit
        impl.set_mode(A.MODE_OF[kind])
        ts = pools.T_WHOLE[:2] + pools.T_24 + pools.T_DYADIC[:3]
        for pdesc in pools.point_descs(kind, rep, ts, [[0, 0], [-5, -30]], [2000, 2004, 9999, 0], "small"):
            for via in collide.DERIVATIONS:
                ctx.state_count += 1
                check_roundtrip(ctx, kind, pdesc, via=via)


def replay_case(case, ctx):
    kind = case["mode"]
    impl.set_mode(A.MODE_OF[kind])
    if case["kind"] == "custom":
        run_unit(("custom_format",), ctx)
        ctx.violations[:] = [v for v in ctx.violations if v["case"].get("text") == case["text"] and v["case"].get("ned") == case["ned"]]
    elif case["kind"] == "rt":
        check_roundtrip(ctx, kind, case["p"], via=case.get("via"))
    else:
        check_dumps(ctx, kind, M.cal(kind), case["p"])


def vacuity(tier, counters, outcomes):
    if outcomes.get("dump_form", 0) < 60:
        return "fewer than 60 distinct complete dump formats exercised"
    return None


def describe(tier):
    return {
        "rule": "deviation-bounded point pool (boundary years x boundary days x 3 representations x time forms incl. "
                "24:00 and decimals x offsets; quick: <= 2 deviations in full + the 23 configurations with 3-4 deviations on a compact "
                "pool); year-edge days of a 14/28-year weekday cycle near midnight; expanded years +-999999; every legal offset from 3 base points per "
                "representation; six-digit fraction boundaries and all 3-digit fractions in 5 decimal positions; "
                "derived operands; complete custom dump formats = complete date form x precision-preserving time form x "
                "zone form that spells the whole offset (or Z)",
        "bounds": {"deviation_bound_completed": 2 if tier == "quick" else 4, "offsets_all": 11999},
        "alphabet_sizes": {"fractions": len(FRACTIONS6) + 1000},
        "exhaustive": True,
        "assumptions": ["fractions fit the dumper's six decimal digits (as stated)"],
    }
