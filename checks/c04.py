"""C04 - subtracting time points inverts addition.

States: ordered pairs of the colliding-instant clusters (near pairs), far pairs across millennia
and year 0, and (point, exact duration) pairs. Transitions: a - b, b - a, b + (a - b),
(p + d) - p. Oracle: M's instant difference; shape rules; inverse identities.
"""
from fractions import Fraction

from isomc import impl, collide, pools, alphabets as A, refmodel as M
from isomc.runner import HorizonExceeded
from checks.c02 import build_pool, pair_exact, Pt  # noqa: F401

ID = "C04"
TITLE = "Subtracting time points inverts addition"
TOL = Fraction(1, 1000000)
FAR_YEARS = [-401, -1, 0, 1, 1600, 1999, 2000, 2001, 2400, 9999]


def _kinds(tier):
    return ["greg", "360"] if tier == "quick" else list(A.KINDS)


def units(tier):
    us = []
    for kind in _kinds(tier):
        n = len(collide.base_instants(kind, tier))
        for i in range(n):
            us.append(("cluster", kind, i))
        us.append(("general", kind))
        if kind == "greg":
            for part in range(3):
                us.append(("noise", kind, part))
        for i in range(len(FAR_YEARS)):
            us.append(("far", kind, i))
        for rep in pools.REPS:
            for ys in (A.Y_S[:6], A.Y_S[6:]):
                us.append(("addsub", kind, rep, ys))
    for a in A.KINDS:
        for b in A.KINDS:
            if a != b:
                us.append(("switch", a, b))
    for sp in ("Gregorian", "360Day", "365_DAY", "366DAY", "360_day", "366_day"):
        us.append(("spelling", sp))
    return us


def _shape_ok(d):
    """days/hours/minutes/seconds only, |h|<24, |m|<60, |s|<60, one sign throughout."""
    if d.get_is_in_weeks():
        return "week form"
    if d.years or d.months:
        return "nominal component"
    comps = [d.days, d.hours, d.minutes, d.seconds]
    if not (abs(d.hours) < 24 and abs(d.minutes) < 60 and abs(d.seconds) < 60):
        return "component out of range"
    if any(c > 0 for c in comps) and any(c < 0 for c in comps):
        return "mixed signs"
    return None


def check_pair(ctx, kind, c, x, y, do_inverse=True):
    case = lambda: {"kind": "pair", "mode": kind, "a": x.label, "b": y.label}  # noqa: E731
    exact = pair_exact(x, y) and not (x.gen or y.gen)
    sig = {"h24": x.h24 or y.h24, "exact": exact}
    impl._H.ticks = 0
    ctx.transitions += 2
    try:
        d = x.obj - y.obj
        e = y.obj - x.obj
    except HorizonExceeded as ex:
        ctx.violation("terminates", sig, case, "a - b terminates", str(ex))
        return
    except Exception as ex:
        ctx.violation("total", dict(sig, exc=type(ex).__name__), case, "a - b returns a Duration",
                      "raised %s: %s" % (type(ex).__name__, ex))
        return
    ctx.traces += 1
    if not isinstance(d, impl.Duration) or isinstance(d, impl.TimeZone):
        ctx.violation("total", dict(sig, exc="type"), case, "Duration", type(d).__name__)
        return
    why = _shape_ok(d)
    want = x.inst - y.inst
    if why:
        # (always judged: whatever the float noise, a difference is written with one sign and in-range components)
        ctx.violation("shape", dict(sig, why=why), case, "days/h/m/s only, |h|<24, |m|,|s|<60, one sign", str(d))
    _, _, sec, _ = impl.alpha_duration(d)
    if sec != want and (exact or abs(sec - want) > TOL):
        ctx.violation("length", sig, case, {"seconds": str(want)}, {"a_minus_b": str(d), "seconds": str(sec)})
    ctx.outcome("sign", (want > 0) - (want < 0))
    # antisymmetry, by the library's own equality
    if exact or abs(want) > TOL:
        ctx.transitions += 1
        if not (d == -1 * e):
            ctx.violation("antisymmetry", sig, case, "(a-b) == -(b-a)", {"a_minus_b": str(d), "b_minus_a": str(e)})
    if not do_inverse:
        return
    # b + (a - b) == a
    # adding to a decimal-hour/minute operand is exact only in steps of 15 minutes
    exact = exact and not (y.dec and want % 900 != 0)
    sig = dict(sig, exact=exact)
    impl._H.ticks = 0
    ctx.transitions += 2
    try:
        back = y.obj + d
        r = impl.alpha_fast(back, c)
        if r[8] is not None:
            ctx.violation("inverse_add", dict(sig, why="invalid"), case, "b + (a-b) is a valid point", r[8])
        else:
            if r[7] != x.inst and (exact or abs(r[7] - x.inst) > TOL):
                ctx.violation("inverse_add", dict(sig, why="instant"), case, {"instant": str(x.inst)},
                              {"b_plus_diff": impl.sstr(back), "instant": str(r[7])})
            if exact and not (back == x.obj):
                ctx.violation("inverse_add", dict(sig, why="eq"), case, "b + (a-b) == a", impl.sstr(back))
    except HorizonExceeded as ex:
        ctx.violation("terminates", sig, case, "b + (a-b) terminates", str(ex))
    except Exception as ex:
        ctx.violation("total", dict(sig, exc=type(ex).__name__), case, "b + (a-b) works",
                      "raised %s: %s" % (type(ex).__name__, ex))


def check_addsub(ctx, kind, c, pdesc, durs):
    """(p + d) - p == d for every exact d."""
    p = impl.build_point(pdesc)
    tcls = pools.time_class(pdesc["t"])
    for ddesc in durs:
        case = lambda: {"kind": "addsub", "mode": kind, "p": pdesc, "d": ddesc}  # noqa: E731
        exact = pools.exact_domain(pdesc["t"], ddesc)
        sig = {"h24": pdesc["t"][1] == 24, "exact": exact, "tcls": tcls}
        impl._H.ticks = 0
        ctx.transitions += 2
        try:
            d = impl.build_duration(ddesc)
            got = (p + d) - p
        except HorizonExceeded as ex:
            ctx.violation("terminates", sig, case, "(p+d)-p terminates", str(ex))
            continue
        except Exception as ex:
            ctx.violation("total", dict(sig, exc=type(ex).__name__), case, "(p+d)-p works",
                          "raised %s: %s" % (type(ex).__name__, ex))
            continue
        ctx.traces += 1
        want = impl.duration_len(ddesc)
        _, _, sec, _ = impl.alpha_duration(got)
        if sec != want and (exact or abs(sec - want) > TOL):
            ctx.violation("addsub_length", sig, case, {"seconds": str(want)}, {"got": impl.sstr(got), "seconds": str(sec)})
        if exact and not (got == d):
            ctx.violation("addsub_eq", sig, case, "(p + d) - p == d", impl.sstr(got))
        why = _shape_ok(got)
        if why and (exact or abs(want) > TOL or why != "mixed signs"):
            # (float noise around a zero-length difference can borrow a whole day: not judged outside the exact domain)
            ctx.violation("shape", dict(sig, why=why), case, "days/h/m/s only, one sign", impl.sstr(got))


def _far_entries(kind, y):
    c = M.cal(kind)
    out = []
    for doy, t, z in ((1, ["hms", 0, 0, 0], [0, 0]), (c.year_len(y), ["hms", 23, 59, 59], [-5, -30]),
                      (60, ["hms", 12, 30, 0], [14, 0])):
        dn = c.dn_from_ord(y, doy)
        for rep in collide.REPS:
            out.append((collide._desc(c, rep, dn, t, z), None, True))
    return out


def run_unit(unit, ctx):
    u, kind = unit[0], unit[1]
    if u == "spelling":
        # the calendar named by another accepted spelling (CF form, other capitalisation) measures distances alike
        sp = unit[1]
        kx = M.MODE_KIND[sp.lower()]
        impl.set_mode(sp)
        cx = M.cal(kx)
        pts = []
        for y in (1999, 2000, 2003, 2005, 2100):
            pts += build_pool(ctx, kx, _far_entries(kx, y)[::2])
        for x in pts:
            for y_ in pts:
                check_pair(ctx, kx, cx, x, y_)
        return
    if u == "switch":
        # distances across several years in mode A, then the same pairs in mode B, then A again, in one process
        for kx in (unit[1], unit[2], unit[1]):
            impl.set_mode(A.MODE_OF[kx])
            cx = M.cal(kx)
            pts = []
            for y in (1999, 2000, 2001, 2004, 2005):
                pts += build_pool(ctx, kx, _far_entries(kx, y)[::2])
            for x in pts:
                for y_ in pts:
                    check_pair(ctx, kx, cx, x, y_)
        return
    impl.set_mode(A.MODE_OF[kind])
    c = M.cal(kind)
    tier = ctx.tier
    if u in ("cluster", "general"):
        if u == "cluster":
            base = collide.base_instants(kind, tier)[unit[2]]
            pool = build_pool(ctx, kind, collide.cluster(kind, base, tier))
        else:
            pool = build_pool(ctx, kind, collide.general_cluster(kind))
        ctx.sample(lambda: {"mode": kind, "a": pool[0].label, "b": pool[-1].label, "pool_size": len(pool)})
        for x in pool:
            for y in pool:
                check_pair(ctx, kind, c, x, y)
    elif u == "noise":
        # two decimal spellings of one instant, and a decimal form against the same time in whole seconds (+-): the
        # shape of the difference (one sign, components in range) must hold whatever the float noise; its length to 1 us
        pairs = [(a, b) for a, b in collide.noise_pairs(unit[2])] + [(a, b) for a, b, _ in collide.decimal_vs_whole_pairs(unit[2])]
        for xd, yd in pairs:
            pool = build_pool(ctx, kind, [(xd, None, False), (yd, None, False)])
            if len(pool) == 2:
                ctx.state_count += 1
                check_pair(ctx, kind, c, pool[0], pool[1])
                check_pair(ctx, kind, c, pool[1], pool[0])
    elif u == "far":
        i = unit[2]
        mine = build_pool(ctx, kind, _far_entries(kind, FAR_YEARS[i]))
        for j, y2 in enumerate(FAR_YEARS):
            others = build_pool(ctx, kind, _far_entries(kind, y2))
            inv = tier != "quick" or abs(FAR_YEARS[i] - y2) <= 450
            for x in mine:
                for y in others:
                    check_pair(ctx, kind, c, x, y, do_inverse=inv)
                    ctx.maximum("max_distance_years", abs(FAR_YEARS[i] - y2))
    elif u == "addsub":
        _, _, rep, ys = unit
        ts = pools.T_WHOLE[:3] + pools.T_24 + pools.T_DYADIC[:3] + pools.T_GENERAL[:2]
        zs = pools.Z0 + pools.Z_DEV[1:3]
        for pdesc in pools.point_descs(kind, rep, ts, zs, ys, "small"):
            ctx.state_count += 1
            check_addsub(ctx, kind, c, pdesc, pools.D_NEAR if tier != "quick" else pools.D_CORE)


def replay_case(case, ctx):
    kind = case["mode"]
    impl.set_mode(A.MODE_OF[kind])
    c = M.cal(kind)
    if case["kind"] == "addsub":
        check_addsub(ctx, kind, c, case["p"], [case["d"]])
        return
    from checks.c02 import replay_case as _rp  # same operand rebuild rules
    ents = [(lb["p"], lb["via"], True) for lb in (case["a"], case["b"])]
    pool = build_pool(ctx, kind, ents)
    for p, lb in zip(pool, (case["a"], case["b"])):
        t = lb["p"]["t"]
        off = lb["p"]["tz"][0] * 60 + lb["p"]["tz"][1]
        p.exact = t[0] == "hms" or (t[0] == "hmf" and (t[3] * 2) == int(t[3] * 2)) or (
            t[0] == "hf" and off % 15 == 0 and (t[2] * 4) == int(t[2] * 4))
    if len(pool) == 2:
        check_pair(ctx, kind, c, pool[0], pool[1])


def vacuity(tier, counters, outcomes):
    if outcomes.get("sign", 0) != 3:
        return "not all three signs of a - b were seen"
    return None


def describe(tier):
    return {
        "rule": "all ordered pairs of every colliding-instant cluster (see C02) and of a tolerance-domain cluster: "
                "a-b, b-a, shape, length, antisymmetry, b+(a-b)==a; all ordered pairs of 9 far points per year over "
                "%d far years (b+(a-b) only up to 450 years apart in quick); (p+d)-p==d over a small point pool x "
                "duration alphabet" % len(FAR_YEARS),
        "bounds": {"modes": _kinds(tier), "far_years": FAR_YEARS, "tolerance_s": 1e-6,
                   "clusters_per_mode": {k: len(collide.base_instants(k, tier)) for k in _kinds(tier)}},
        "alphabet_sizes": {"durations": len(pools.D_NEAR if tier != "quick" else pools.D_CORE)},
        "exhaustive": True,
        "assumptions": ["strict equalities only in the exact float domain; 1 us tolerance elsewhere"],
    }
