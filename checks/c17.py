"""C17 - strftime matches POSIX for the supported directives and strptime inverts it.

States: (point, format string) with format strings = all token sequences up to a length over the
11 supported directives and 5 literals. Transitions: TimePoint.strftime, TimePointDumper.strftime,
TimePointParser.strptime on the produced text. Oracle: M's POSIX formatter on the civil fields
(itself compared with datetime.strftime for years >= 1000); inverse/default rules.
"""
import datetime
import itertools
import string

from isomc import impl, pools, alphabets as A, refmodel as M

ID = "C17"
TITLE = "strftime matches POSIX for the supported directives and strptime inverts it"

DIRECTIVES = ["%Y", "%m", "%d", "%j", "%H", "%M", "%S", "%F", "%X", "%z", "%s"]
LITERALS = ["-", ":", "T", " ", "/"]
TOKENS = DIRECTIVES + LITERALS
LONG_FORMATS = ["%Y-%m-%dT%H:%M:%S%z", "%F %X %z", "%Y%j%H%M%S%z", "%s", "%Y%m%dT%H%M%S%z", "%d/%m/%Y %H:%M:%S %z",
                "%j %Y %X%z", "%z %S %M %H %d %m %Y"]
ASSUMED = (5, 30)


def civil(c, rep, f, h, m, s, off, inst):
    y, mo, d = c.cal_from_dn(c.dn_from(rep, f))
    doy = c.ord_from_dn(c.dn_from(rep, f))[1]
    return {"Y": y, "m": mo, "d": d, "j": doy, "H": int(h), "M": int(m), "S": int(s), "off": off, "inst": inst}


def posix(fmt_tokens, cv):
    out = []
    for t in fmt_tokens:
        if t == "%Y":
            out.append("%04d" % cv["Y"])
        elif t == "%m":
            out.append("%02d" % cv["m"])
        elif t == "%d":
            out.append("%02d" % cv["d"])
        elif t == "%j":
            out.append("%03d" % cv["j"])
        elif t == "%H":
            out.append("%02d" % cv["H"])
        elif t == "%M":
            out.append("%02d" % cv["M"])
        elif t == "%S":
            out.append("%02d" % cv["S"])
        elif t == "%F":
            out.append("%04d-%02d-%02d" % (cv["Y"], cv["m"], cv["d"]))
        elif t == "%X":
            out.append("%02d:%02d:%02d" % (cv["H"], cv["M"], cv["S"]))
        elif t == "%z":
            o = cv["off"]
            out.append("%s%02d%02d" % ("-" if o < 0 else "+", abs(o) // 60, abs(o) % 60))
        elif t == "%s":
            out.append(str(int(cv["inst"] - EPOCH)))
        else:
            out.append(t)
    return "".join(out)


EPOCH = M.cal("greg").dn_from_cal(1970, 1, 1) * 86400


def epoch_for(kind):
    return M.cal(kind).dn_from_cal(1970, 1, 1) * 86400


def fields_given(tokens):
    """Which fields a format names, and how often."""
    cnt = {}
    for t in tokens:
        for k in {"%Y": ["Y"], "%m": ["m"], "%d": ["d"], "%j": ["j"], "%H": ["H"], "%M": ["M"], "%S": ["S"],
                  "%F": ["Y", "m", "d"], "%X": ["H", "M", "S"], "%z": ["z"], "%s": ["s"]}.get(t, []):
            cnt[k] = cnt.get(k, 0) + 1
    return cnt


def point_pool(kind, tier):
    c = M.cal(kind)
    years = [0, 999, 1000, 1969, 2005, 2038, 9999] if tier == "quick" else [0, 1, 999, 1000, 1969, 1970, 1999, 2000, 2004, 2005, 2038, 9999]
    out = []
    for y in years:
        days = (1, 60, c.year_len(y)) if tier == "quick" else pools.days_small(c, y)
        for i, doy in enumerate(days):
            dn = c.dn_from_ord(y, doy)
            for rep in pools.REPS:
                f = list(c.from_dn(rep, dn))
                if not 0 <= f[0] <= 9999:
                    continue
                t = [["hms", 0, 0, 0], ["hms", 23, 59, 59], ["hms", 6, 5, 4]][(i + len(out)) % 3]
                z = [[0, 0], [-5, -30], [0, -30], [14, 0], [99, 59], [-12, 0]][(len(out)) % 6]
                out.append({"rep": rep, "f": f, "t": t, "tz": z})
    return out


def all_formats(maxlen):
    for n in range(1, maxlen + 1):
        for toks in itertools.product(TOKENS, repeat=n):
            yield list(toks)


def units(tier):
    us = []
    maxlen = 3 if tier == "quick" else 4
    for i, t in enumerate(TOKENS):
        us.append(("formats", "greg", i, maxlen))
    for kind in ("360", "365", "366"):
        us.append(("long", kind))
    us.append(("long", "greg"))
    us.append(("derived", "greg"))
    us.append(("derived", "360"))
    us.append(("unsupported",))
    us.append(("model_vs_datetime",))
    return us


_PARSER = None


def parser():
    global _PARSER
    if _PARSER is None:
        from metomi.isodatetime.parsers import TimePointParser
        _PARSER = TimePointParser(assumed_time_zone=ASSUMED)
    return _PARSER


def check_format(ctx, kind, c, tokens, pts, epoch):
    fmt = "".join(tokens)
    given = fields_given(tokens)
    repeated = any(v > 1 for v in given.values()) or ("j" in given and ("m" in given or "d" in given)) or \
        ("s" in given and len(given) > 1)
    has_date = "Y" in given and (("m" in given and "d" in given) or "j" in given)
    full = ("s" in given and len(given) == 1) or (has_date and all(k in given for k in "HMSz"))
    dumper = impl.D.TIMEPOINT_DUMPER_MAP[0]
    for pi, (pdesc, p, cv) in enumerate(pts):
        case = lambda: {"kind": "fmt", "mode": kind, "p": pdesc, "fmt": fmt}  # noqa: E731
        sig = {"rep": pdesc["rep"], "repeated": repeated, "full": full}
        want = posix(tokens, dict(cv, inst=cv["inst"] - epoch + EPOCH))
        ctx.transitions += 2
        impl._H.ticks = 0
        try:
            got = p.strftime(fmt)
            got2 = dumper.strftime(p, fmt)
        except Exception as ex:
            ctx.violation("strftime_total", dict(sig, exc=type(ex).__name__), case, want,
                          "raised %s: %s" % (type(ex).__name__, ex))
            continue
        ctx.traces += 1
        if got != want or got2 != want:
            bad = [t for t in tokens if t in DIRECTIVES and posix([t], dict(cv, inst=cv["inst"] - epoch + EPOCH)) !=
                   _safe_strftime(p, t)]
            ctx.violation("strftime_posix", dict(sig, directives="".join(sorted(set(bad)))), case, want,
                          {"TimePoint.strftime": got, "TimePointDumper.strftime": got2})
            continue
        # a value that carries the strftime format as its dump format prints itself that way (str -> dumper.dump)
        if pi % 3 == 0 and "%" in fmt:   # without a directive a dump format is ISO notation, not strftime
            ctx.transitions += 1
            try:
                tw = impl.fresh_twin(p, dump_format=fmt)
                got3 = None if tw is None else str(tw)
            except Exception as ex:
                got3 = "raised %s: %s" % (type(ex).__name__, ex)
            if got3 is not None and got3 != want:
                ctx.violation("strftime_posix", dict(sig, directives="", via="dump_format"), case, want, {"str": got3})
        # strptime with the same format (%s walks day by day from 1970: only within +-130 years of the epoch)
        if "s" in given and not 1840 <= cv["Y"] <= 2100:
            continue
        # (%s is read back in the system's local zone: formats with %s are also parsed under non-UTC system zones)
        seam = 0
        if "s" in given:
            seam = (0, 330, -210)[(len(fmt) + cv["S"]) % 3]
            sig = dict(sig, seam=seam)
        ctx.transitions += 1
        impl._H.ticks = 0
        try:
            with impl.system_zone(seam):
                q = parser().strptime(got, fmt)
        except ValueError as ex:
            if repeated:
                ctx.counters["strptime_repeated_field_refused"] = ctx.counters.get("strptime_repeated_field_refused", 0) + 1
                if full:
                    # the format determines a full date, time and zone (some of it twice, consistently: the text is
                    # strftime's own output), so by the statement strptime recovers the point
                    ctx.violation("strptime_refuses_own_output", dict(sig, exc=type(ex).__name__), case,
                                  {"equal_to": impl.sstr(p)}, {"text": got, "error": "%s: %s" % (type(ex).__name__, ex)})
            elif full or "Y" in given:
                ctx.violation("strptime_total", dict(sig, exc=type(ex).__name__), case, "strptime accepts strftime's output",
                              {"text": got, "error": "%s: %s" % (type(ex).__name__, ex)})
            else:
                ctx.counters["strptime_yearless_refused"] = ctx.counters.get("strptime_yearless_refused", 0) + 1
            continue
        except Exception as ex:
            ctx.violation("strptime_total", dict(sig, exc=type(ex).__name__), case, "a TimePoint or a ValueError",
                          {"text": got, "error": "%s: %s" % (type(ex).__name__, ex)})
            continue
        r = impl.alpha_fast(q, c)
        if r[8] is not None:
            if "Y" in given or "s" in given:
                ctx.violation("strptime_valid", sig, case, "a valid TimePoint", {"text": got, "why": r[8]})
            continue
        if repeated and ("s" in given or (has_date and all(k in given for k in "HMSz"))):
            # a repeated field either round-trips or is refused: an accepted text must give the original back
            ctx.outcome("repeated_accepted", "".join(sorted(given)))
            if r[7] != cv["inst"] or not (q == p):
                ctx.violation("strptime_repeated_field", sig, case, {"equal_to": impl.sstr(p), "or": "ValueError"},
                              {"text": got, "parsed": impl.sstr(q)})
        elif full:
            ctx.outcome("full_format", fmt if len(fmt) < 20 else "long")
            if r[7] != cv["inst"] or not (q == p):
                ctx.violation("strptime_inverse", sig, case, {"equal_to": impl.sstr(p)}, {"text": got, "parsed": impl.sstr(q)})
        elif "Y" in given and not repeated and "s" not in given:
            # omitted parts default to the start of the period and the assumed zone
            if "j" in given:
                e_rep, e_f = "ord", (cv["Y"], cv["j"])
            else:
                e_rep, e_f = "cal", (cv["Y"], cv["m"] if "m" in given else 1, cv["d"] if "d" in given else 1)
            e_t = (cv["H"] if "H" in given else 0, cv["M"] if "M" in given else 0, cv["S"] if "S" in given else 0)
            e_off = cv["off"] if "z" in given else ASSUMED[0] * 60 + ASSUMED[1]
            ok = c.valid(e_rep, e_f)
            if ok and (r[0] != e_rep or tuple(r[1]) != e_f or (int(r[2]), int(r[3]), int(r[4])) != e_t or r[5] != e_off):
                ctx.violation("strptime_defaults", sig, case,
                              {"rep": e_rep, "f": list(e_f), "time": list(e_t), "offset_min": e_off},
                              {"text": got, "parsed": impl.sstr(q)})
            ctx.outcome("partial_format", "".join(sorted(given)))


def _safe_strftime(p, t):
    try:
        return p.strftime(t)
    except Exception:
        return None


DERIVE = ["cal", "ord", "week", "cal+1s", "ord+1d", "week-1d", "rezone", "cal+1d-1d"]


def derive_point(p, how):
    """A value reached through operations (conversions, shifts): same kind of object, private state no constructor
    call produces. Its civil fields are read back from the object itself (alpha), not assumed."""
    D = impl.D
    if how == "cal":
        return p.to_calendar_date()
    if how == "ord":
        return p.to_ordinal_date()
    if how == "week":
        return p.to_week_date()
    if how == "cal+1s":
        return p.to_calendar_date() + D.Duration(seconds=1)
    if how == "ord+1d":
        return p.to_ordinal_date() + D.Duration(days=1)
    if how == "week-1d":
        return p.to_week_date() - D.Duration(days=1)
    if how == "rezone":
        return p.to_time_zone(D.TimeZone(hours=-3, minutes=-30))
    if how == "cal+1d-1d":
        return (p.to_calendar_date() + D.Duration(days=1)) - D.Duration(days=1)
    raise ValueError(how)


def _prep(kind, c, tier, derived=False):
    pts = []
    for pdesc in point_pool(kind, tier):
        p = impl.build_point(pdesc)
        if not derived:
            dn, tod, off = impl.model_point(pdesc, kind)
            tod = int(tod)
            cv = civil(c, pdesc["rep"], pdesc["f"], tod // 3600, (tod % 3600) // 60, tod % 60, off, dn * 86400 + tod - off * 60)
            pts.append((pdesc, p, cv))
            continue
        for how in DERIVE:
            try:
                q = derive_point(p, how)
            except Exception:
                continue
            r = impl.alpha_fast(q, c)
            if r[8] is not None or not 0 <= c.cal_from_dn(r[6])[0] <= 9999 or not 0 <= r[1][0] <= 9999:
                continue   # an invalid derived value is C01/C03/C06's business; years outside 0000-9999 are out of scope
            tod = int(r[7] - (r[6] * 86400 - r[5] * 60))
            cv = civil(c, r[0], r[1], tod // 3600, (tod % 3600) // 60, tod % 60, r[5], r[7])
            pts.append((dict(pdesc, derive=how), q, cv))
    return pts


def run_unit(unit, ctx):
    u = unit[0]
    if u == "formats":
        _, kind, i0, maxlen = unit
        impl.set_mode(A.MODE_OF[kind])
        c = M.cal(kind)
        pts = _prep(kind, c, ctx.tier)
        ep = epoch_for(kind)
        first = TOKENS[i0]
        for n in range(0, maxlen):
            for rest in itertools.product(TOKENS, repeat=n):
                tokens = [first] + list(rest)
                ctx.state_count += 1
                ctx.sample(lambda: {"mode": kind, "fmt": "".join(tokens), "points": len(pts)})
                check_format(ctx, kind, c, tokens, pts, ep)
    elif u == "long":
        kind = unit[1]
        impl.set_mode(A.MODE_OF[kind])
        c = M.cal(kind)
        pts = _prep(kind, c, "thorough")
        ep = epoch_for(kind)
        import re
        for fmt in LONG_FORMATS + ["%Y", "%j", "%F", "%m%d", "%s %z", "%Y-%j"]:
            tokens = [t for t in re.split(r"(%\w)", fmt) if t]
            tokens = [x for t in tokens for x in ([t] if t.startswith("%") else list(t))]
            ctx.state_count += 1
            check_format(ctx, kind, c, tokens, pts, ep)
    elif u == "derived":
        # every single directive and the long formats on derived operands
        kind = unit[1]
        impl.set_mode(A.MODE_OF[kind])
        c = M.cal(kind)
        pts = _prep(kind, c, "quick", derived=True)
        ep = epoch_for(kind)
        import re
        fmts = [[d] for d in DIRECTIVES] + [["%Y", "-", "%j"], ["%F", "T", "%X", "%z"], ["%Y", "%m", "%d", "%j", "%H", "%M", "%S", "%z"]]
        for tokens in fmts:
            ctx.state_count += 1
            check_format(ctx, kind, c, tokens, pts, ep)
    elif u == "unsupported":
        impl.set_mode(None)
        p = impl.build_point({"rep": "cal", "f": [2015, 12, 31], "t": ["hms", 6, 31, 1], "tz": [0, 0]})
        dumper = impl.D.TIMEPOINT_DUMPER_MAP[0]
        supported = set(d[1] for d in DIRECTIVES)
        for ch in string.ascii_letters + string.digits + "_":
            if ch in supported:
                continue
            fmt = "%" + ch
            ctx.state_count += 1
            for name, fn in (("TimePoint.strftime", lambda: p.strftime(fmt)),
                             ("TimePointDumper.strftime", lambda: dumper.strftime(p, fmt)),
                             ("TimePointParser.strptime", lambda: parser().strptime("2015", fmt)),
                             ("TimePoint.strftime_in_context", lambda: p.strftime("%Y-" + fmt + "-%d"))):
                ctx.transitions += 1
                try:
                    out = fn()
                    ctx.violation("unsupported_refused", {"entry": name}, {"kind": "unsupported", "fmt": fmt},
                                  "ValueError-derived refusal", repr(out))
                except ValueError as ex:
                    ctx.traces += 1
                    from metomi.isodatetime.exceptions import IsodatetimeError
                    if not isinstance(ex, IsodatetimeError):
                        ctx.violation("unsupported_refused", {"entry": name, "exc": type(ex).__name__},
                                      {"kind": "unsupported", "fmt": fmt}, "the library's ValueError-derived error", repr(ex))
                except Exception as ex:
                    ctx.violation("unsupported_refused", {"entry": name, "exc": type(ex).__name__},
                                  {"kind": "unsupported", "fmt": fmt}, "ValueError-derived refusal", repr(ex))
    elif u == "model_vs_datetime":
        # M's POSIX formatter against datetime.strftime for years >= 1000 (platform strftime pads %Y differently below)
        c = M.cal("greg")
        for pdesc in point_pool("greg", "thorough"):
            dn, tod, off = impl.model_point(pdesc, "greg")
            if not 1000 <= c.cal_from_dn(dn)[0] <= 9999:
                continue
            tod = int(tod)
            cv = civil(c, pdesc["rep"], pdesc["f"], tod // 3600, (tod % 3600) // 60, tod % 60, off, dn * 86400 + tod - off * 60)
            tz = datetime.timezone(datetime.timedelta(minutes=off)) if abs(off) < 1440 else None
            dt = datetime.datetime(cv["Y"], cv["m"], cv["d"], cv["H"], cv["M"], cv["S"], tzinfo=tz)
            toks = ["%Y", "-", "%m", "-", "%d", " ", "%j", " ", "%H", ":", "%M", ":", "%S", " ", "%F", " ", "%X"] + (["%z"] if tz else [])
            ctx.transitions += 1
            ctx.state_count += 1
            if posix(toks, cv) != dt.strftime("".join(toks)):
                raise AssertionError("reference POSIX formatter disagrees with datetime: %r vs %r" % (
                    posix(toks, cv), dt.strftime("".join(toks))))
            if tz and int(dt.timestamp()) != int(cv["inst"] - EPOCH):
                raise AssertionError("reference epoch disagrees with datetime")


def replay_case(case, ctx):
    if case["kind"] == "unsupported":
        run_unit(("unsupported",), ctx)
        return
    kind = case["mode"]
    impl.set_mode(A.MODE_OF[kind])
    c = M.cal(kind)
    import re
    tokens = [t for t in re.split(r"(%\w)", case["fmt"]) if t]
    tokens = [x for t in tokens for x in ([t] if t.startswith("%") else list(t))]
    pdesc = case["p"]
    p = impl.build_point({k: v for k, v in pdesc.items() if k != "derive"})
    if pdesc.get("derive"):
        p = derive_point(p, pdesc["derive"])
        r = impl.alpha_fast(p, c)
        tod = int(r[7] - (r[6] * 86400 - r[5] * 60))
        cv = civil(c, r[0], r[1], tod // 3600, (tod % 3600) // 60, tod % 60, r[5], r[7])
    else:
        dn, tod, off = impl.model_point(pdesc, kind)
        tod = int(tod)
        cv = civil(c, pdesc["rep"], pdesc["f"], tod // 3600, (tod % 3600) // 60, tod % 60, off, dn * 86400 + tod - off * 60)
    check_format(ctx, kind, c, tokens, [(pdesc, p, cv)], epoch_for(kind))


def vacuity(tier, counters, outcomes):
    if outcomes.get("partial_format", 0) < 20:
        return "few partial formats reached the defaults oracle"
    if outcomes.get("full_format", 0) < 2:
        return "no full format reached the inverse oracle"
    return None


def describe(tier):
    n = 3 if tier == "quick" else 4
    return {
        "rule": "all token sequences of length <= %d over 11 directives and 5 literals (%d formats) plus long fixed "
                "formats x a point pool (years 0000-9999 incl. <1000, 3 representations, 6 offsets incl. -00:30 and "
                "+99:59); strftime via TimePoint and TimePointDumper against M's POSIX formatter; strptime of the "
                "output with the same format: inverse for full formats, defaults for partial ones, round-trip or "
                "ValueError for repeated fields; every other %%-letter/digit/_ refused from 3 entry points" % (
                    n, sum(len(TOKENS) ** k for k in range(1, n + 1))),
        "bounds": {"max_tokens": n},
        "alphabet_sizes": {"tokens": len(TOKENS), "points": len(point_pool("greg", tier))},
        "exhaustive": True,
        "assumptions": ["'%%' is not among the supported directives listed by the property and is not in the alphabet",
                        "formats without a year are only required not to crash (the default for a missing year is not "
                        "defined by the property)"],
    }
