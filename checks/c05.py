"""C05 - month and year arithmetic follows calendar rules with end-of-period clamping.

States: every day of every year type of each mode x 3 representations (x offsets on boundary
days). Transitions: + months, add_months, + years, mixed nominal/exact durations, n single steps.
Oracle: M's clamp semantics; library-differential composition rules.
"""
from isomc import impl, pools, alphabets as A, refmodel as M
from isomc.runner import HorizonExceeded

ID = "C05"
TITLE = "Month and year arithmetic follows calendar rules with end-of-period clamping"

MONTHS = [1, -1, 2, -2, 11, -11, 12, -12, 13, -13, 25, -25]
YEARS = [1, -1, 3, -3, 4, -4, 100, -100, 400, -400]
MIXED = [{"months": 1, "days": 1}, {"years": 1, "months": 1}, {"months": 1, "hours": 1},
         {"years": 1, "months": 2, "days": 3, "hours": 4}, {"months": -1, "days": -1},
         {"years": -1, "months": -2, "days": -3, "hours": -4}, {"years": 4, "days": 366},
         {"months": 12, "hours": -24}, {"years": 1, "weeks": 0, "days": 7}]
TIMES = [["hms", 0, 0, 0], ["hms", 12, 30, 0], ["hms", 23, 59, 59]]
TIMES_EXTRA = [["hf", 6, 0.25], ["hmsf", 5, 59, 59, 0.5]]


def year_types(kind, tier):
    if kind == "greg":
        ys = list(range(1999, 2029)) + [1900, 2000, 2100, -4, 0, -1, 9998]
        if tier != "quick":
            ys += list(range(1600, 1999, 7)) + list(range(2029, 2401, 7)) + [-400, -101, -100, 400, 1]
    else:
        ys = list(range(2000, 2007)) + [0, -1]
        if tier != "quick":
            ys += list(range(1990, 2000)) + list(range(2007, 2016))
    return sorted(set(ys))


def units(tier):
    us = []
    for kind in A.KINDS:
        ys = year_types(kind, tier)
        for i in range(0, len(ys), 2):
            for rep in pools.REPS:
                us.append(("days", kind, rep, ys[i:i + 2]))
    # the same arithmetic in mode A, then B, then A again within one process: the result must be a valid date of the
    # *active* mode (a memoised month length or week count of the previous mode must not leak into the clamp)
    for a in A.KINDS:
        for b in A.KINDS:
            if a != b:
                us.append(("switch", a, b))
    return us


def _f_after(c, rep, f, exact_days, months, years):
    """M: exact part (whole days here handled by caller through dn), then months, then years."""
    f = c.add_months(rep, f, months)
    f = c.add_years(rep, f, years)
    return tuple(f)


def check_point(ctx, kind, c, pdesc, boundary, tier):
    try:
        p = impl.build_point(pdesc)
    except Exception as e:
        ctx.violation("construct", {"exc": type(e).__name__}, {"kind": "pt", "mode": kind, "p": pdesc, "op": ["none"]},
                      "valid operand", repr(e))
        return
    rep, f0 = pdesc["rep"], tuple(pdesc["f"])
    key_t = (impl._tv(p._hour_of_day), impl._tv(p._minute_of_hour), impl._tv(p._second_of_minute))
    dn0 = c.dn_from(rep, f0)

    def run(op, fn):
        case = lambda: {"kind": "pt", "mode": kind, "p": pdesc, "op": op}  # noqa: E731
        impl._H.ticks = 0
        ctx.transitions += 1
        try:
            q = fn()
        except HorizonExceeded as ex:
            ctx.violation("terminates", {"op": op[0]}, case, "terminates", str(ex))
            return None
        except Exception as ex:
            ctx.violation("total", {"op": op[0], "exc": type(ex).__name__}, case, "returns a TimePoint",
                          "raised %s: %s" % (type(ex).__name__, ex))
            return None
        ctx.traces += 1
        return q

    def judge(op, q, want_f, time_kept=True, sigx=None):
        case = lambda: {"kind": "pt", "mode": kind, "p": pdesc, "op": op}  # noqa: E731
        sig = {"op": op[0], "rep": rep}
        if sigx:
            sig.update(sigx)
        r = impl.alpha_fast(q, c)
        if r[8] is not None:
            ctx.violation("valid_result", sig, case, "a valid date of the active mode",
                          {"result": impl.sstr(q), "why": r[8]})
            return
        if r[0] != rep:
            ctx.violation("keeps_representation", sig, case, rep, r[0])
            return
        if r[1] != tuple(want_f):
            ctx.violation("date", sig, case, list(want_f), {"fields": list(r[1]), "result": impl.sstr(q)})
        if time_kept:
            kt = (impl._tv(q._hour_of_day), impl._tv(q._minute_of_hour), impl._tv(q._second_of_minute))
            if (kt != key_t and
                    (q._hour_of_day, q._minute_of_hour, q._second_of_minute) !=
                    (p._hour_of_day, p._minute_of_hour, p._second_of_minute)):
                ctx.violation("keeps_time_of_day", sig, case, [p._hour_of_day, p._minute_of_hour, p._second_of_minute],
                              [q._hour_of_day, q._minute_of_hour, q._second_of_minute])
        if [q._time_zone._hours, q._time_zone._minutes] != list(pdesc["tz"]):
            ctx.violation("keeps_offset", sig, case, pdesc["tz"], [q._time_zone._hours, q._time_zone._minutes])

    # months ------------------------------------------------------------------------------------------
    for n in MONTHS:
        op = ["months", n]
        q = run(op, lambda: p + impl.Duration(months=n))
        if q is None:
            continue
        want = c.add_months(rep, f0, n)
        judge(op, q, want)
        q_std = run(["months_standardize", n], lambda: p + impl.Duration(months=n, standardize=True))
        if q_std is not None and impl.canon_point(q_std) != impl.canon_point(q):
            ctx.violation("date", {"op": "months_standardize", "rep": rep},
                          {"kind": "pt", "mode": kind, "p": pdesc, "op": ["months_standardize", n]}, impl.sstr(q), impl.sstr(q_std))
        q2 = run(["add_months", n], lambda: p.add_months(n))
        if q2 is not None and impl.canon_point(q2) != impl.canon_point(q):
            ctx.violation("add_months_same_as_plus", {"op": "add_months", "rep": rep},
                          {"kind": "pt", "mode": kind, "p": pdesc, "op": ["add_months", n]}, impl.sstr(q), impl.sstr(q2))
        if want[0] != f0[0]:
            ctx.counters["month_steps_crossing_year"] = ctx.counters.get("month_steps_crossing_year", 0) + 1
        cal0 = c.cal_from_dn(dn0)
        calq = c.cal_from_dn(c.dn_from(rep, want))
        if calq[2] != cal0[2]:
            ctx.counters["month_clamps"] = ctx.counters.get("month_clamps", 0) + 1
        # n months == n single steps (library differential), on boundary days
        if boundary and abs(n) <= 13:
            step = impl.Duration(months=1 if n > 0 else -1)
            r = p
            ok = True
            for _ in range(abs(n)):
                r = run(["month_steps", n], lambda: r + step)
                if r is None:
                    ok = False
                    break
            if ok and impl.canon_point(r) != impl.canon_point(q):
                ctx.violation("n_months_is_n_steps", {"op": "month_steps", "rep": rep},
                              {"kind": "pt", "mode": kind, "p": pdesc, "op": ["month_steps", n]},
                              impl.sstr(q), impl.sstr(r))
    # years -------------------------------------------------------------------------------------------
    for n in YEARS:
        op = ["years", n]
        q = run(op, lambda: p + impl.Duration(years=n))
        if q is None:
            continue
        want = c.add_years(rep, f0, n)
        judge(op, q, want)
        if tuple(want[1:]) != tuple(f0[1:]):
            ctx.counters["year_clamps_" + rep] = ctx.counters.get("year_clamps_" + rep, 0) + 1
    # mixed ------------------------------------------------------------------------------------------
    if boundary or tier != "quick":
        for md in MIXED:
            op = ["mixed", md]
            q = run(op, lambda: p + impl.Duration(**md))
            if q is None:
                continue
            exact = {k: v for k, v in md.items() if k in ("weeks", "days", "hours", "minutes", "seconds") and v}
            # model: exact part first (instant shift, in local time), then months, then years
            dn, tod, off = impl.model_point(pdesc, kind)
            local = dn * 86400 + tod + impl.duration_len(exact)
            dn1 = int(local // 86400)
            tod1 = local - dn1 * 86400
            f1 = c.from_dn(rep, dn1)
            want = c.add_years(rep, c.add_months(rep, f1, md.get("months", 0)), md.get("years", 0))
            judge(op, q, want, time_kept=False)
            r = impl.alpha_fast(q, c)
            if r[8] is None:
                qtod = r[7] - (r[6] * 86400 - r[5] * 60)
                if qtod != tod1:
                    ctx.violation("mixed_time_of_day", {"op": "mixed", "rep": rep},
                                  {"kind": "pt", "mode": kind, "p": pdesc, "op": op}, str(tod1), str(qtod))
            # library differential: exact part, then months, then years, applied separately
            parts = run(["mixed_parts", md], lambda: ((p + impl.Duration(**exact)) +
                                                      impl.Duration(months=md.get("months", 0))) +
                        impl.Duration(years=md.get("years", 0)))
            if parts is not None and impl.canon_point(parts) != impl.canon_point(q):
                ctx.violation("mixed_order", {"op": "mixed", "rep": rep},
                              {"kind": "pt", "mode": kind, "p": pdesc, "op": ["mixed_parts", md]},
                              impl.sstr(parts), impl.sstr(q))


SWITCH_YEARS = (2003, 2004, 2005, 2006, 2007, 2008, 2009)


def run_switch(unit, ctx):
    _, ka, kb = unit
    orig = ctx.violation

    def tagged(oracle, sig, case, want, got):
        cs = dict(case() if callable(case) else case)
        cs["history"] = [ka, kb]
        orig(oracle, dict(sig, after_switch=True), cs, want, got)
    ctx.violation = tagged
    try:
        for kind in (ka, kb, ka):
            impl.set_mode(A.MODE_OF[kind])
            c = M.cal(kind)
            for y in SWITCH_YEARS:
                for doy in A.days_boundary(c, y):
                    dn = c.dn_from_ord(y, doy)
                    for rep in pools.REPS:
                        pdesc = {"rep": rep, "f": list(c.from_dn(rep, dn)), "t": TIMES[0], "tz": [0, 0]}
                        ctx.state_count += 1
                        check_point(ctx, kind, c, pdesc, True, ctx.tier)
    finally:
        ctx.violation = orig


def run_unit(unit, ctx):
    if unit[0] == "switch":
        return run_switch(unit, ctx)
    _, kind, rep, ys = unit
    impl.set_mode(A.MODE_OF[kind])
    c = M.cal(kind)
    for y in ys:
        bset = set(A.days_boundary(c, y))
        for doy in range(1, c.year_len(y) + 1):
            dn = c.dn_from_ord(y, doy)
            f = list(c.from_dn(rep, dn))
            boundary = doy in bset
            times = TIMES[:1]
            zones = [[0, 0]]
            if boundary:
                times = TIMES + TIMES_EXTRA
                zones = [[0, 0], [-5, -30]]
            for t in times:
                for z in zones:
                    pdesc = {"rep": rep, "f": f, "t": t, "tz": z}
                    if not 0 <= f[0] <= 9999:
                        pdesc["ned"] = 2
                    ctx.state_count += 1
                    ctx.sample(lambda: {"mode": kind, "p": pdesc, "ops": "all month/year/mixed durations"})
                    check_point(ctx, kind, c, pdesc, boundary and t is TIMES[0] and z == [0, 0], ctx.tier)


def replay_case(case, ctx):
    if case.get("history"):
        return run_switch(("switch", case["history"][0], case["history"][1]), ctx)
    kind = case["mode"]
    impl.set_mode(A.MODE_OF[kind])
    check_point(ctx, kind, M.cal(kind), case["p"], True, "thorough")


def vacuity(tier, counters, outcomes):
    for k in ("month_clamps", "year_clamps_cal", "year_clamps_ord", "year_clamps_week", "month_steps_crossing_year"):
        if counters.get(k, 0) < 10:
            return "too few %s" % k
    return None


def describe(tier):
    return {
        "rule": "every day of every year type per mode (Gregorian: 1999-2028 + century/zero/negative years; fixed "
                "calendars: a 7-year weekday cycle) x 3 representations; boundary days additionally x 5 time forms "
                "x 2 offsets; each with every month count, year count and mixed duration of the alphabet; n-step "
                "composition and mixed-order differential on boundary days",
        "bounds": {"year_types": {k: len(year_types(k, tier)) for k in A.KINDS}},
        "alphabet_sizes": {"month_counts": len(MONTHS), "year_counts": len(YEARS), "mixed": len(MIXED)},
        "exhaustive": True,
        "assumptions": ["24:00 operands are not used here (time of day 'preserved' is ambiguous for them); "
                        "C01/C02 cover 24:00"],
    }
