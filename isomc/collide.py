"""Pools of time points whose instants collide by construction (C02, C04, C06).

A cluster is built around one base instant I (integer seconds): the five instants
{I-1d, I-1s, I, I+1s, I+1d}, each spelled in every representation x a set of UTC offsets x every
time form that can denote it (whole-second form, 24:00 of the previous day when the local time is
midnight, decimal-hour form when the local time is a multiple of 15 min, decimal-minute form when
it is a multiple of 30 s), plus derived operands (values reached through operations, whose private
state no constructor call yields).
"""
from isomc import refmodel as M

OFFSETS_EXACT = [[0, 0], [1, 0], [-5, -30], [0, -30], [5, 45], [14, 0], [-12, 0]]
OFFSETS_BIG = [[99, 59], [-99, -59]]          # whole-second forms only (not quarter-hour: fine, ints)
REPS = ["cal", "ord", "week"]

BASES = [  # (month, day, h, m, s) in UTC, applied to each cluster year
    (1, 1, 0, 0, 0), (12, 31, 23, 59, 59), (3, 1, 0, 0, 0), (2, 28, 12, 30, 0), (7, 3, 0, 0, 0),
    (6, 15, 6, 15, 0)]


def cluster_years(kind, tier):
    if tier == "quick":
        return [-1, 0, 2000, 2004, 9999] if kind == "greg" else [2000]
    ys = [-401, -400, -1, 0, 1, 1900, 1999, 2000, 2001, 2004, 2005, 2015, 2100, 2400, 9999]
    return ys if kind == "greg" else [-1, 0, 1, 1999, 2000, 2001, 2004, 2005]


def base_instants(kind, tier):
    c = M.cal(kind)
    out = []
    for y in cluster_years(kind, tier):
        for (mo, d, h, mi, s) in BASES:
            d = min(d, c.month_len(y, mo))
            out.append(c.dn_from_cal(y, mo, d) * 86400 + h * 3600 + mi * 60 + s)
    return out


def _desc(c, rep, dn, t, z):
    f = list(c.from_dn(rep, dn))
    d = {"rep": rep, "f": f, "t": t, "tz": z}
    if not 0 <= f[0] <= 9999:
        d["ned"] = 2
    return d


def spellings(kind, inst, offsets, reps=REPS, forms=True):
    """Descriptors denoting integer instant inst: [(desc, exact_domain)]."""
    c = M.cal(kind)
    out = []
    for z in offsets:
        off = z[0] * 60 + z[1]
        local = inst + off * 60
        dn, tod = divmod(local, 86400)
        h, r = divmod(tod, 3600)
        mi, s = divmod(r, 60)
        quarter = off % 15 == 0
        for rep in reps:
            out.append((_desc(c, rep, dn, ["hms", h, mi, s], z), True))
            if not forms:
                continue
            if tod == 0:
                out.append((_desc(c, rep, dn - 1, ["hms", 24, 0, 0], z), True))
            if tod % 900 == 0:
                out.append((_desc(c, rep, dn, ["hf", h, (tod % 3600) / 3600.0], z), quarter))
            if tod % 30 == 0:
                out.append((_desc(c, rep, dn, ["hmf", h, mi, (tod % 60) / 60.0], z), True))
    return out


DERIVATIONS = ["addsub", "rezone", "viaweek", "viaord", "parsed"]


def derive(impl, p, how):
    """A value with the same instant as p, reached through operations."""
    if how == "addsub":
        return (p + impl.Duration(hours=1.0)) - impl.Duration(hours=1.0)
    if how == "rezone":
        return p.to_time_zone(impl.TimeZone(hours=5, minutes=45)).to_time_zone(p.time_zone)
    if how == "viaweek":
        return p.to_week_date()
    if how == "viaord":
        return p.to_ordinal_date()
    if how == "parsed":
        from metomi.isodatetime.parsers import TimePointParser
        return TimePointParser(num_expanded_year_digits=p.num_expanded_year_digits or 2).parse(str(p))
    raise ValueError(how)


FRACS_EXACT = [0.5, 0.123456, 2.0 ** -21, 0.1]     # second fractions; 2^-21 s is below a microsecond and exact in binary


def frac_spellings(kind, inst, offsets, frac):
    """Descriptors denoting inst + frac seconds in the seconds-decimal form. Whole-minute offset changes never touch
    the seconds field, so comparison, hashing and re-zoning of these are exact for ANY fraction."""
    c = M.cal(kind)
    out = []
    for z in offsets:
        off = z[0] * 60 + z[1]
        dn, tod = divmod(inst + off * 60, 86400)
        h, r = divmod(tod, 3600)
        mi, s = divmod(r, 60)
        for rep in REPS:
            out.append((_desc(c, rep, dn, ["hmsf", h, mi, s, frac], z), True))
    return out


def cluster(kind, base, tier):
    """[(desc, derivation or None, exact)] for one base instant."""
    out = []
    quick = tier == "quick"
    offs_full = OFFSETS_EXACT[:5] if quick else OFFSETS_EXACT
    for delta in (-86400, -1, 0, 1, 86400):
        inst = base + delta
        near = delta in (-1, 0, 1)
        if near:
            for desc, exact in spellings(kind, inst, offs_full, forms=(delta == 0 or not quick)):
                out.append((desc, None, exact))
        else:
            for desc, exact in spellings(kind, inst, OFFSETS_EXACT[:2] if quick else OFFSETS_EXACT[:3],
                                         reps=["cal", "week"] if quick else REPS, forms=False):
                out.append((desc, None, exact))
        if delta == 0 or not quick:
            for desc, exact in spellings(kind, inst, OFFSETS_BIG, reps=["cal", "week"], forms=False):
                out.append((desc, None, exact))
        if delta == 0:
            for fr in (FRACS_EXACT[2:] if quick else FRACS_EXACT):
                for desc, exact in frac_spellings(kind, inst, OFFSETS_EXACT[:3] + OFFSETS_BIG[:1], fr):
                    out.append((desc, None, exact))
            # derived operands from a few spellings of the base instant
            for desc, exact in spellings(kind, inst, [[0, 0]] if quick else [[0, 0], [-5, -30]], reps=["cal", "ord"]):
                for how in DERIVATIONS:
                    out.append((desc, how, exact))
    return out


def general_cluster(kind):
    """Tolerance-domain cluster: decimal forms that are not binary fractions, against whole-second
    neighbours. Order is only judged when instants differ by more than 1 us."""
    c = M.cal(kind)
    dn = c.dn_from_cal(2001, 3, 1)
    out = []
    for z in ([0, 0], [-5, -30], [99, 59]):
        for rep in REPS:
            for t in (["hf", 6, 0.1], ["hms", 6, 6, 0], ["hms", 6, 5, 59], ["hms", 6, 6, 1], ["hmf", 6, 5, 0.9999],
                      ["hmsf", 6, 5, 59, 0.999999], ["hmsf", 6, 6, 0, 0.000001], ["hmf", 6, 6, 0.3],
                      ["hms", 6, 6, 18], ["hmsf", 6, 6, 17, 0.5]):
                out.append((_desc(c, rep, dn, t, z), None, False))
    return out


# ------------------------------------------------------------------------------------------------
# noise sweep: two spellings of ONE instant whose decimal part is not a binary fraction
# ------------------------------------------------------------------------------------------------
NOISE_HOURS = (0, 8, 22)
NOISE_HOUR_OFFSETS = ((-10, 0), (3, 0), (14, 0))
NOISE_MINUTES = ((8, 0), (8, 19), (23, 59))
NOISE_MINUTE_OFFSETS = ((5, 45), (0, -30), (-9, -30))


def noise_pairs(part=None):
    """(x, y) descriptor pairs at exactly the same instant: every hundredth of an hour (of a minute) as a decimal-hour
    (decimal-minute) form in UTC, and the same civil time shifted by a whole-hour (whole-minute) offset, so that both
    spellings carry the same decimal digits. Float re-zoning of one into the other's offset is where the noise is."""
    c = M.cal("greg")
    dn0 = c.dn_from_cal(2000, 6, 15)
    out = []
    for hi, h in enumerate(NOISE_HOURS):
        if part is not None and part != hi:
            continue
        for cc in range(1, 100):
            fr = cc / 100.0
            x = {"rep": "cal", "f": list(c.cal_from_dn(dn0)), "t": ["hf", h, fr], "tz": [0, 0]}
            for (oh, om) in NOISE_HOUR_OFFSETS:
                d, h2 = divmod(h + oh, 24)
                y = {"rep": "cal", "f": list(c.cal_from_dn(dn0 + d)), "t": ["hf", h2, fr], "tz": [oh, om]}
                out.append((x, y))
    for mi, (h, m) in enumerate(NOISE_MINUTES):
        if part is not None and part != mi:
            continue
        for cc in range(1, 100):
            fr = cc / 100.0
            x = {"rep": "ord", "f": list(c.ord_from_dn(dn0)), "t": ["hmf", h, m, fr], "tz": [0, 0]}
            for (oh, om) in NOISE_MINUTE_OFFSETS:
                tot = h * 60 + m + oh * 60 + om
                d, rem = divmod(tot, 1440)
                y = {"rep": "week", "f": list(c.week_from_dn(dn0 + d)), "t": ["hmf", rem // 60, rem % 60, fr], "tz": [oh, om]}
                out.append((x, y))
    return out


def decimal_vs_whole_pairs(part=None):
    """(x, y) at one instant: x a decimal-hour (decimal-minute) form with two decimals, y the same time spelled in whole
    seconds (every hundredth of an hour is 36 s; every twentieth of a minute is 3 s), plus y one second earlier/later."""
    c = M.cal("greg")
    dn0 = c.dn_from_cal(2000, 3, 1)
    f = list(c.cal_from_dn(dn0))
    out = []
    for hi, h in enumerate((0, 7, 23)):
        if part is not None and part != hi:
            continue
        for cc in range(1, 100):
            secs = cc * 36
            x = {"rep": "cal", "f": f, "t": ["hf", h, cc / 100.0], "tz": [0, 0]}
            for dlt in (0, -60, 1, -3600):
                t2 = h * 3600 + secs + dlt
                if 0 <= t2 < 86400:
                    out.append((x, {"rep": "cal", "f": f, "t": ["hms", t2 // 3600, t2 % 3600 // 60, t2 % 60], "tz": [0, 0]}, dlt))
        for cc in range(5, 100, 5):
            secs = cc * 6 // 10
            x = {"rep": "cal", "f": f, "t": ["hmf", h, 7, cc / 100.0], "tz": [0, 0]}
            for dlt in (0, -1):
                t2 = h * 3600 + 7 * 60 + secs + dlt
                out.append((x, {"rep": "cal", "f": f, "t": ["hms", t2 // 3600, t2 % 3600 // 60, t2 % 60], "tz": [0, 0]}, dlt))
    return out
