"""C15 - the active calendar mode alone determines calendar results.

Explicit-state exploration of histories: events S(spelling, channel) - switch the process-wide
mode through one of the public channels - and Q(probe) - a mode-discriminating computation.
Oracle at every Q: the value a fresh subprocess that only ever used the current mode computes
(cross-checked against M where M defines it). Each history starts from a reset context; the
reset itself is validated against real fresh subprocesses.
"""
import itertools
import json
import os
import subprocess
import sys

from isomc import impl, probes, alphabets as A, refmodel as M

ID = "C15"
TITLE = "The active calendar mode alone determines calendar results"
SPELLINGS = A.SPELLINGS
CANON = [A.MODE_OF[k] for k in A.KINDS]
K_SMALL = ["week_from_cal", "days_in_month", "weeks_in_year", "validate_feb30", "add_month", "recurrence",
           "iter_months_days", "cli_offset"]


def switch_events():
    evs = []
    for sp in SPELLINGS:
        for ch in ("api", "operator", "env"):
            evs.append(["S", sp, ch])
    for sp in CANON:
        evs.append(["S", sp, "cli"])
    return evs


def units(tier):
    us = []
    names = probes.names()
    # (1) all ordered spelling pairs x all probe pairs, api channel
    for a in SPELLINGS:
        us.append(("pairs_api", a))
    # (2) all switch events (spelling x channel) pairs x small probe set
    evs = switch_events()
    for i in range(len(evs)):
        us.append(("pairs_channels", i))
    # (3) A B A return pattern, canonical modes, two probes per segment
    for a in CANON:
        us.append(("aba", a))
    # (4) reset through DateTimeOperator() and the single-switch reset validation against real subprocesses
    us.append(("case_spellings",))
    us.append(("operator_reset",))
    for a in SPELLINGS:
        us.append(("validate_reset", a))
    us.append(("fresh_vs_model",))
    if tier != "quick":
        for a in SPELLINGS:
            for b in SPELLINGS:
                us.append(("triples", a, b))
    return us


_FRESH = {}


def _subprocess_env():
    repo = os.environ.get("VERIF_REPO", "/repo")
    env = dict(os.environ, PYTHONPATH=repo + os.pathsep + os.path.dirname(os.path.dirname(os.path.abspath(__file__))),
               PYTHONHASHSEED="0", PYTHONDONTWRITEBYTECODE="1", TZ="UTC")
    env.pop("ISODATETIMECALENDAR", None)
    env.pop("ISODATETIMEREF", None)
    return env


def fresh(spelling):
    """Observations of a fresh process that only ever used `spelling` (forward and reverse probe order agree)."""
    if spelling not in _FRESH:
        p = subprocess.run([sys.executable, "-m", "isomc.probes", spelling], capture_output=True, text=True,
                           env=_subprocess_env(), timeout=120)
        if p.returncode != 0:
            raise RuntimeError("fresh probe process failed for %s: %s" % (spelling, p.stderr[-500:]))
        d = json.loads(p.stdout)
        _FRESH[spelling] = d
    return _FRESH[spelling]


def reset_context():
    impl.CAL.set_mode(None)
    impl.clear_caches()
    probes.CURRENT["cli"] = "gregorian"
    os.environ.pop("ISODATETIMECALENDAR", None)


def run_history(ctx, history, label):
    """Execute on a reset context; check the invariant at every Q."""
    reset_context()
    current = "gregorian"
    seen = []
    table = _TABLE
    for i, ev in enumerate(history):
        if ev[0] == "S":
            ctx.transitions += 1
            try:
                probes.switch(ev[1], ev[2])
            except Exception as ex:
                ctx.violation("switch_total", {"channel": ev[2], "exc": type(ex).__name__},
                              {"kind": "history", "history": history}, "mode switch accepted",
                              "raised %s: %s" % (type(ex).__name__, ex))
                return
            current = "gregorian" if ev[2] == "operator_reset" else ev[1]
            seen.append(current)
            continue
        ctx.transitions += 1
        impl._H.ticks = 0
        name = ev[1]
        try:
            got = table[name]()
        except Exception as ex:  # noqa
            got = "EXC:%s:%s" % (type(ex).__name__, ex)
        want = fresh(current)["forward"][name]
        got = json.loads(json.dumps(got))
        if got != want:
            prev = [s for s in seen[:-1] if M.MODE_KIND[s] != M.MODE_KIND[current]]
            ctx.violation("mode_determines_result", {"probe": name, "mode": M.MODE_KIND[current],
                                                     "after_other_mode": bool(prev), "label": label},
                          {"kind": "history", "history": history},
                          {"fresh_single_mode_process": want, "mode": current, "event_index": i}, got)
        ctx.outcome("value:" + name, json.dumps(got))
        if name == "cli_offset":
            # the CLI probe passes --calendar <CLI spelling of the current mode>: same calendar, canonical spelling
            current = probes.CLI_SPELLING[current]
    ctx.traces += 1
    ctx.state((label, tuple(tuple(e) for e in history)))
    # mode left behind must be what the last switch said
    if impl.CAL.mode.lower() != (current or "gregorian").lower():
        ctx.violation("mode_after_history", {"label": label}, {"kind": "history", "history": history}, current, impl.CAL.mode)


_TABLE = None


def run_unit(unit, ctx):
    global _TABLE
    if _TABLE is None:
        _TABLE = dict(probes._probes())
    names = probes.names()
    u = unit[0]
    try:
        if u == "pairs_api":
            a = unit[1]
            for b in SPELLINGS:
                for k1 in names:
                    for k2 in names:
                        run_history(ctx, [["S", a, "api"], ["Q", k1], ["S", b, "api"], ["Q", k2]], "pairs_api")
            ctx.sample({"history": [["S", a, "api"], ["Q", names[0]], ["S", SPELLINGS[2], "api"], ["Q", names[1]]]})
        elif u == "pairs_channels":
            evs = switch_events()
            e1 = evs[unit[1]]
            for e2 in evs:
                for k1 in K_SMALL:
                    for k2 in K_SMALL:
                        run_history(ctx, [e1, ["Q", k1], e2, ["Q", k2]], "pairs_channels")
            ctx.sample({"history": [e1, ["Q", K_SMALL[0]], evs[5], ["Q", K_SMALL[1]]]})
        elif u == "aba":
            a = unit[1]
            for b in CANON:
                if b == a:
                    continue
                for k1, k2 in itertools.product(names, repeat=2):
                    # A: k1 k2 / B: k1 k2 / A again: k1 k2 (a probe repeated within one mode; return to a mode)
                    run_history(ctx, [["S", a, "api"], ["Q", k1], ["Q", k2], ["S", b, "api"], ["Q", k1], ["Q", k2],
                                      ["S", a, "api"], ["Q", k1], ["Q", k2], ["Q", k1]], "aba")
        elif u == "case_spellings":
            # set_mode accepts any capitalisation of the seven spellings; the results are those of the mode named
            for sp in ("Gregorian", "GREGORIAN", "360Day", "360_DAY", "365DAY", "366_Day"):
                low = sp.lower()
                for ch in ("api", "operator", "env"):
                    reset_context()
                    probes.switch(sp, ch)
                    probes.CURRENT["cli"] = probes.CLI_SPELLING[low]
                    for k in names:
                        ctx.transitions += 1
                        impl._H.ticks = 0
                        try:
                            got = json.loads(json.dumps(_TABLE[k]()))
                        except Exception as ex:  # noqa
                            got = "EXC:%s:%s" % (type(ex).__name__, ex)
                        want = fresh(low)["forward"][k]
                        if got != want:
                            ctx.violation("mode_determines_result", {"probe": k, "mode": M.MODE_KIND[low], "spelling_case": True,
                                                                     "after_other_mode": False, "label": "case_spellings"},
                                          {"kind": "history", "history": [["S", sp, ch], ["Q", k]]},
                                          {"fresh_single_mode_process": want, "mode": low}, got)
                    ctx.traces += 1
                    ctx.state(("case", sp, ch))
        elif u == "operator_reset":
            for a in SPELLINGS:
                for k1 in names:
                    for k2 in names:
                        run_history(ctx, [["S", a, "api"], ["Q", k1], ["S", "gregorian", "operator_reset"], ["Q", k2]],
                                    "operator_reset")
        elif u == "validate_reset":
            a = unit[1]
            pairs = [(K_SMALL[i], K_SMALL[(i + 3) % len(K_SMALL)]) for i in range(0, len(K_SMALL), 2)]
            for b in SPELLINGS:
                for k1, k2 in pairs[:2] if ctx.tier == "quick" else pairs:
                    hist = [["S", a, "api"], ["Q", k1], ["S", b, "env"], ["Q", k2]]
                    ctx.transitions += 1
                    p = subprocess.run([sys.executable, "-m", "isomc.probes", a, json.dumps(hist)], capture_output=True,
                                       text=True, env=_subprocess_env(), timeout=120)
                    if p.returncode != 0:
                        raise RuntimeError("history subprocess failed: " + p.stderr[-300:])
                    real = json.loads(p.stdout)
                    reset_context()
                    mine = json.loads(json.dumps(probes.run_history(hist)))
                    ctx.traces += 1
                    ctx.state(("validate", tuple(tuple(e) for e in hist)))
                    if real != mine:
                        raise RuntimeError("reset context is not equivalent to a fresh process: %r vs %r for %r" % (
                            real, mine, hist))
                    ctx.counters["histories_replayed_in_fresh_process"] = ctx.counters.get(
                        "histories_replayed_in_fresh_process", 0) + 1
        elif u == "fresh_vs_model":
            for sp in SPELLINGS:
                f = fresh(sp)
                if f["forward"] != f["reverse"]:
                    ctx.violation("single_mode_order_independent", {"mode": M.MODE_KIND[sp]}, {"kind": "fresh", "mode": sp},
                                  f["forward"], f["reverse"])
                c = M.cal(sp)
                want = {
                    "ord_from_cal": list(c.ord_from_dn(c.dn_from_cal(2001, 3, 1))),
                    "week_from_cal": list(c.week_from_dn(c.dn_from_cal(2001, 3, 1))),
                    "cal_from_ord": list(c.cal_from_dn(c.dn_from_ord(2001, 60))),
                    "week_from_ord": list(c.week_from_dn(c.dn_from_ord(2001, 60))),
                    "cal_from_week": list(c.cal_from_dn(c.dn_from_week(2001, 9, 4))),
                    "ord_from_week": list(c.ord_from_dn(c.dn_from_week(2001, 9, 4))),
                    "days_in_month": [c.month_len(2001, 2), c.month_len(2004, 2), c.month_len(2001, 1)],
                    "days_in_year": [c.year_len(2001), c.year_len(2004)],
                    "weeks_in_year": [c.weeks_in_year(2004), c.weeks_in_year(2001)],
                    "days_in_year_range": c.days_in_year_range(1999, 2004),
                    "week_start": list(c.cal_from_dn(c.week_year_start(2005))),
                    "week_year_add": [list(c.add_years("week", (2001, 52, 2), 1)), list(c.add_years("week", (2004, 52, 7), -2)),
                                      list(c.add_years("week", (2000, 51, 1), 5))],
                    "validate_truncated": [max(c.leap) >= 31, max(c.leap) >= 30, c.len_leap >= 366, c.len_leap >= 361,
                                           max(c.weeks_in_year(y) for y in range(1990, 2030)) >= 53,
                                           max(c.weeks_in_year(y) for y in range(1990, 2030)) >= 52],
                    "nominal_lengths": [[c.len_common, 0], (c.len_common + 30) * 86400, c.len_common > 361, c.len_common <= 360,
                                        c.len_common < 366],
                }
                for k, v in want.items():
                    ctx.transitions += 1
                    if f["forward"][k] != v:
                        ctx.violation("fresh_matches_calendar_definition", {"probe": k, "mode": M.MODE_KIND[sp]},
                                      {"kind": "fresh", "mode": sp}, v, f["forward"][k])
                ctx.state(("fresh", sp))
            # probes must be mode-discriminating (vacuity guard)
            for k in names:
                vals = set(json.dumps(fresh(sp)["forward"][k]) for sp in CANON)
                ctx.outcome("probe_discriminates:" + k, len(vals))
                if len(vals) < 2:
                    # on the unchanged tree every probe discriminates the modes (asserted when the probe set was
                    # designed); a probe that has become mode-blind means the modes no longer differ as defined
                    ctx.violation("probe_mode_blind", {"probe": k}, {"kind": "fresh", "mode": "all"},
                                  "values differ between calendar modes", sorted(vals))
        elif u == "triples":
            _, a, b = unit
            for c3 in SPELLINGS:
                for k1, k2, k3 in itertools.product(K_SMALL, repeat=3):
                    run_history(ctx, [["S", a, "api"], ["Q", k1], ["S", b, "operator"], ["Q", k2], ["Q", k1],
                                      ["S", c3, "env"], ["Q", k3], ["Q", k2]], "triples")
    finally:
        reset_context()


def replay_case(case, ctx):
    global _TABLE
    _TABLE = dict(probes._probes())
    if case["kind"] == "history":
        run_history(ctx, case["history"], "replay")
        reset_context()
    else:
        run_unit(("fresh_vs_model",), ctx)


def vacuity(tier, counters, outcomes):
    if counters.get("histories_replayed_in_fresh_process", 0) < 50:
        return "reset context was not validated against fresh processes"
    return None


def describe(tier):
    n = len(probes.names())
    return {
        "rule": "histories from a reset context: all 7x7 ordered spelling pairs x all %d^2 probe pairs (API channel); all "
                "25x25 (spelling, channel) switch-event pairs x 8^2 probes; A-B-A return patterns on the 4 canonical modes "
                "with two probes per segment and a repeated probe; reset to Gregorian through DateTimeOperator(); "
                "thorough: all 7^3 three-segment histories x 8^3 probes. Every observation equals the value from a fresh "
                "single-mode subprocess; single-switch histories are replayed in real fresh subprocesses to validate "
                "the reset" % n,
        "bounds": {"max_switches_per_history": 2 if tier == "quick" else 3, "probes": n, "channels": probes.CHANNELS},
        "alphabet_sizes": {"spellings": len(SPELLINGS), "switch_events": len(switch_events()), "probes": n,
                           "small_probe_set": len(K_SMALL)},
        "exhaustive": True,
        "assumptions": ["lru_cache eviction (maxsize 100000) is never reached",
                        "a malformed ISODATETIMECALENDAR value is outside the statement"],
    }
