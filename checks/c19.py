"""C19 - the command line prints exactly what the library computes.

States: argument vectors. Transition: main(argv) in-process with captured stdout (SystemExit is an
observation); a fixed subset is also run as a subprocess and must print the same bytes.
Oracle: M (output decoded in the input's own notation, fields of the shifted instant) and a
library differential for formatting options and recurrences.
"""
import contextlib
import io
import itertools
import os
import re
import subprocess
import sys
from fractions import Fraction

from isomc import impl, mtext, recur, alphabets as A, refmodel as M

ID = "C19"
TITLE = "The command line prints exactly what the library computes"

OFFSET_LISTS = [[], ["P1D"], ["-PT1H"], ["P1M", "-P1D"], ["-P1Y"], ["PT0.5H"], ["P1W", "PT36H"], ["-P1M"], ["-P1W"],
                ["PT3M"]]
VECTORS = [
    ({"year": 2015, "month": 12, "day": 31, "doy": 365, "week": 53, "wday": 4}, {"h": 23, "m": 59, "s": 59, "frac": "5"}),
    ({"year": 2016, "month": 2, "day": 29, "doy": 60, "week": 9, "wday": 1}, {"h": 6, "m": 31, "s": 1, "frac": "25"}),
    ({"year": 2001, "month": 3, "day": 1, "doy": 60, "week": 9, "wday": 4}, {"h": 12, "m": 0, "s": 7, "frac": "05"}),
]
ZVALS = {"Z": {}, "hh": {"zsign": "-", "zh": 5}, "hhmm": {"zsign": "+", "zh": 5, "zm": 45}, "hh:mm": {"zsign": "-", "zh": 0, "zm": 30}}
SEAM = 330   # system UTC offset (minutes) the library sees


class FakeClock:
    now = 1451606399.0   # 2015-12-31T23:59:59Z


@contextlib.contextmanager
def environment(env=None, seam=SEAM):
    import time as _time
    saved_env = {k: os.environ.get(k) for k in ("ISODATETIMECALENDAR", "ISODATETIMEREF")}
    for k in saved_env:
        os.environ.pop(k, None)
    for k, v in (env or {}).items():
        os.environ[k] = v
    real_time = _time.time
    _time.time = lambda: FakeClock.now
    try:
        with impl.system_zone(seam):
            yield
    finally:
        _time.time = real_time
        for k, v in saved_env.items():
            os.environ.pop(k, None)
            if v is not None:
                os.environ[k] = v
        impl.reset_mode()


def run_main_sequence(argvs, envs=None, seam=SEAM):
    """Several commands in ONE process, no reset in between (a long-lived caller of main()); returns the results."""
    from metomi.isodatetime.main import main
    out = []
    with impl.system_zone(seam):
        for i, argv in enumerate(argvs):
            env = (envs or [None] * len(argvs))[i] or {}
            saved = {k: os.environ.get(k) for k in ("ISODATETIMECALENDAR", "ISODATETIMEREF")}
            for k in saved:
                os.environ.pop(k, None)
            os.environ.update(env)
            buf = io.StringIO()
            try:
                with contextlib.redirect_stdout(buf), contextlib.redirect_stderr(io.StringIO()):
                    main(list(argv))
                o = buf.getvalue()
                out.append(("out", o[:-1] if o.endswith("\n") else o))
            except SystemExit as ex:
                out.append(("exit", str(ex.code)))
            except BaseException as ex:  # noqa
                out.append(("exc", "%s: %s" % (type(ex).__name__, ex)))
            finally:
                for k, v in saved.items():
                    os.environ.pop(k, None)
                    if v is not None:
                        os.environ[k] = v
    impl.reset_mode()
    return out


def run_main(argv, env=None, seam=SEAM):
    """-> (kind, payload): ("out", text) | ("exit", code) | ("exc", repr)"""
    from metomi.isodatetime.main import main
    buf, err = io.StringIO(), io.StringIO()
    impl._H.ticks = 0
    try:
        with environment(env, seam), contextlib.redirect_stdout(buf), contextlib.redirect_stderr(err):
            main(list(argv))
    except SystemExit as ex:
        code = ex.code
        return "exit", (code if isinstance(code, (int, str, type(None))) else "%s: %s" % (type(code).__name__, code))
    except BaseException as ex:  # noqa
        return "exc", "%s: %s" % (type(ex).__name__, ex)
    out = buf.getvalue()
    return "out", out[:-1] if out.endswith("\n") else out


# ------------------------------------------------------------------------------------------------
# M: the civil value an item denotes, shifting, and field comparison with a decoded output
# ------------------------------------------------------------------------------------------------
def item_value(kind, rep, cls, dname, dv, tname, tv, zname):
    """(rep, local seconds as Fraction, offset minutes or None for 'local')"""
    c = M.cal(kind)
    base = dname.lstrip("x")
    if cls == "complete":
        f = {"cal": (dv["year"], dv["month"], dv["day"]), "ord": (dv["year"], dv["doy"]),
             "week": (dv["year"], dv["week"], dv["wday"])}[rep]
    elif base == "month":
        f = (dv["year"], dv["month"], 1)
    elif base == "year":
        f = (dv["year"], 1, 1)
    elif base == "century":
        f = ((dv["year"] // 100) * 100, 1, 1)
    else:
        f = (dv["year"], dv["week"], 1)
    if not c.valid(rep, f):
        return None
    tod = Fraction(0)
    if tname:
        fr = Fraction(int(tv["frac"]), 10 ** len(tv["frac"]))
        if tname.startswith("hhmmss_f"):
            tod = tv["h"] * 3600 + tv["m"] * 60 + tv["s"] + fr
        elif tname.startswith("hhmm_f"):
            tod = tv["h"] * 3600 + (tv["m"] + fr) * 60
        elif tname.startswith("hh_f"):
            tod = (tv["h"] + fr) * 3600
        elif tname.startswith("hhmmss"):
            tod = Fraction(tv["h"] * 3600 + tv["m"] * 60 + tv["s"])
        elif tname.startswith("hhmm"):
            tod = Fraction(tv["h"] * 3600 + tv["m"] * 60)
        else:
            tod = Fraction(tv["h"] * 3600)
    off = None
    if zname:
        zv = ZVALS[zname]
        off = 0 if zname == "Z" else (-1 if zv["zsign"] == "-" else 1) * (zv["zh"] * 60 + zv.get("zm", 0))
    return rep, c.dn_from(rep, f) * 86400 + tod, off


_DUR_RE = re.compile(r"^(-)?P(?:(\d+)Y)?(?:(\d+)M)?(?:(\d+)W)?(?:(\d+)D)?(?:T(?:(\d+(?:[,.]\d+)?)H)?(?:(\d+(?:[,.]\d+)?)M)?(?:(\d+(?:[,.]\d+)?)S)?)?$")


def dur_desc(text):
    """M's own reading of a designator duration (for offsets and printed results)."""
    m = _DUR_RE.match(text)
    if not m or text in ("P", "-P"):
        return None
    sign = -1 if m.group(1) else 1
    def num(x):
        return Fraction(x.replace(",", ".")) if x else Fraction(0)
    d = {"years": int(m.group(2) or 0), "months": int(m.group(3) or 0), "weeks": int(m.group(4) or 0),
         "days": int(m.group(5) or 0), "hours": num(m.group(6)), "minutes": num(m.group(7)), "seconds": num(m.group(8))}
    return {k: sign * v for k, v in d.items()}


def shift(kind, rep, local_s, offsets):
    c = M.cal(kind)
    for o in offsets:
        d = dur_desc(o.lstrip("+"))
        local_s = recur.m_shift(c, rep, local_s, d, 1)
    return local_s


def compare_fields(c, rep, toks, f, local_s, off_minutes):
    """Every field the output prints must be the corresponding field of the expected civil value."""
    dn = int(local_s // 86400)
    tod = local_s - dn * 86400
    probs = []
    has_week = "Www" in toks or "D" in toks
    has_cal = any(t in toks for t in ("MM", "DD", "DDD"))
    if has_week and not has_cal:
        wy, w, wd = c.week_from_dn(dn)
        want = {"year": wy, "week": w, "wday": wd}
    else:
        y, mo, d = c.cal_from_dn(dn)
        want = {"year": y, "month": mo, "day": d, "doy": c.ord_from_dn(dn)[1]}
    for k in ("year", "month", "day", "doy", "week", "wday"):
        if k in f and f[k] != want.get(k):
            probs.append("%s: printed %r, expected %r" % (k, f[k], want.get(k)))
    if "cc" in f and "year" not in f and f["cc"] != abs(want["year"]) % 10000 // 100:
        probs.append("century: printed %r, expected %r" % (f["cc"], abs(want["year"]) // 100))
    h = int(tod // 3600)
    mi = int((tod - h * 3600) // 60)
    s = tod - h * 3600 - mi * 60
    if "frac" in f:
        unit = f["frac_of"]
        pv = Fraction(int(f["frac"]), 10 ** len(f["frac"]))
        if unit == "fh":
            got, exp = f["h"] + pv, tod / 3600
        elif unit == "fm":
            got, exp = f["m"] + pv, (tod - h * 3600) / 60
            if f["h"] != h:
                probs.append("hour: printed %r, expected %r" % (f["h"], h))
        else:
            got, exp = f["s"] + pv, s
            if (f["h"], f["m"]) != (h, mi):
                probs.append("hour:minute printed %r, expected %r" % ((f["h"], f["m"]), (h, mi)))
        if abs(got - exp) > Fraction(3, 2000000):
            probs.append("decimal %s: printed %s, expected %s" % (unit, float(got), float(exp)))
    else:
        for k, v in (("h", h), ("m", mi), ("s", int(s))):
            if k in f and f[k] != v:
                probs.append("%s: printed %r, expected %r" % (k, f[k], v))
    if "zh" in f:
        got = (-1 if f.get("zsign") == "-" else 1) * (f["zh"] * 60 + f.get("zm", 0))
        if got != off_minutes:
            probs.append("zone: printed %r, expected %r" % (got, off_minutes))
    return probs


def items(ned=2):
    """(text, dname, toks, rep, cls, dv, tname, tv, zname)"""
    dforms, tforms, zforms = mtext.date_forms(), mtext.time_forms(), mtext.zone_forms()
    for vi, (dv, tv) in enumerate(VECTORS):
        for dname, (dtoks, dkind, cls, rep) in dforms.items():
            dtext = mtext.render(dtoks, dv, ned)
            yield dtext, dname, dtoks, rep, cls, dv, None, tv, None
            if cls != "complete":
                continue
            for tname, (ttoks, tkind, prec) in tforms.items():
                if not mtext.compatible(dkind, tkind):
                    continue
                ttext = mtext.render(ttoks, tv)
                yield dtext + "T" + ttext, dname, dtoks + [mtext.lit("T")] + ttoks, rep, cls, dv, tname, tv, None
                for zname, (ztoks, zkind) in zforms.items():
                    if not mtext.compatible(dkind, tkind, zkind):
                        continue
                    if vi >= 1 and zname in ("hh",):
                        continue
                    if vi == 2 and zname == "hhmm":
                        continue
                    yield (dtext + "T" + ttext + mtext.render(ztoks, ZVALS[zname]), dname,
                           dtoks + [mtext.lit("T")] + ttoks + ztoks, rep, cls, dv, tname, tv, zname)


def units(tier):
    us = []
    for oi in range(len(OFFSET_LISTS)):
        for part in range(2):
            us.append(("shift", "greg", oi, part))
    for kind in ("360", "365", "366"):
        us.append(("shift", kind, 1, 0))
        us.append(("shift", kind, 3, 1))
    for kind in A.KINDS:
        us.append(("diff", kind))
        us.append(("recurrence", kind))
    us.append(("options",))
    us.append(("malformed", 0))
    us.append(("malformed", 1))
    us.append(("subprocess",))
    return us


def check_shift(ctx, kind, entry, offsets, extra=(), env=None, utc=False):
    text, dname, toks, rep, cls, dv, tname, tv, zname = entry
    val = item_value(kind, rep, cls, dname, dv, tname, tv, zname)
    argv = [text] + list(extra)
    for o in offsets:
        argv += ["--offset=" + o] if o.startswith("-") and len(argv) % 2 else ["-s", o]
    if kind != "greg" and not env:
        argv += ["--calendar", A.MODE_OF[kind]]
    if utc:
        argv.append("--utc")
    case = lambda: {"kind": "shift", "mode": kind, "argv": argv, "env": env}  # noqa: E731
    sig = {"dform": dname.lstrip("x"), "tform": tname, "zform": zname, "offsets": "+".join(offsets) or "none", "utc": utc}
    ctx.transitions += 1
    res = run_main(argv, env)
    ctx.traces += 1
    if val is None:
        # the item is not a real date in this calendar: a clean refusal is expected
        if res[0] != "exit" or res[1] in (0, None):
            ctx.violation("refuses_malformed", sig, case, "non-zero exit with a message", list(res))
        return
    if text[0] == "-":
        if res[0] != "exit":
            ctx.violation("leading_minus_item", sig, case, "clean exit (argparse takes it for an option)", list(res))
        return
    if res[0] != "out":
        ctx.violation("prints_result", dict(sig, got=res[0]), case, "a date-time in the input's notation", list(res))
        return
    out = res[1]
    rep_, local_s, off = val
    if utc:
        local_s = local_s - (off if off is not None else SEAM) * 60
        off_out = 0
    else:
        off_out = off if off is not None else SEAM
    want_local = shift(kind, rep_, local_s, offsets)
    try:
        f = mtext.decode(toks, out, 2)
    except mtext.DecodeError as ex:
        ctx.violation("same_notation", sig, case, {"form": mtext.notation(toks)}, {"out": out, "why": str(ex)})
        return
    probs = compare_fields(M.cal(kind), rep_, toks, f, want_local, off_out)
    if probs:
        ctx.violation("shifted_value", sig, case, {"local_seconds": str(want_local), "offset_min": off_out},
                      {"out": out, "problems": probs})
    ctx.outcome("form", mtext.notation(toks))


DIFF_ITEMS = ["2015-12-31T23:59:59Z", "20160229T063101+0545", "2016-060T06:31:01-00:30", "2015-W53-4T23:59Z",
              "2000-01-01T00Z", "1999-12-31T24:00:00Z", "2000-01-01T01:00:00+01:00", "+000000-01-01T00:00:00Z",
              "+000001-001T00Z", "9999-12-31T23:59:59-12:00", "2016-02-29", "2016", "2015-12-31T23,5Z", "1970-01-01T00Z",
              "2000-01-01T10:30:00Z", "2000-01-01T13:00:15+01:00", "2000-01-01T10:29:59,5Z"]
DIFF_FORMATS = ["d,h,M,s", "h:M", "y/m/d h-M-s", "s M"]   # duration print formats: y m d h M s are fields, the rest literal
DIFF_VALUES = None


def diff_value(kind, text):
    """Instant (seconds, zone-free) of a DIFF_ITEMS string, read by M's decoder over all complete/reduced forms."""
    c = M.cal(kind)
    dforms, tforms, zforms = mtext.date_forms(), mtext.time_forms(), mtext.zone_forms()
    cands = []
    for dname, (dtoks, dkind, cls, rep) in dforms.items():
        cands.append((dtoks, rep, cls, dname, None))
        if cls == "complete":
            for tname, (ttoks, tkind, prec) in tforms.items():
                if mtext.compatible(dkind, tkind):
                    cands.append((dtoks + [mtext.lit("T")] + ttoks, rep, cls, dname, None))
                    for zname, (ztoks, zkind) in zforms.items():
                        if mtext.compatible(dkind, tkind, zkind):
                            cands.append((dtoks + [mtext.lit("T")] + ttoks + ztoks, rep, cls, dname, zname))
    for toks, rep, cls, dname, zname in cands:
        try:
            f = mtext.decode(toks, text, 2)
        except mtext.DecodeError:
            continue
        base = dname.lstrip("x")
        y = f.get("year", 0)
        if cls == "complete":
            fld = {"cal": (y, f.get("month"), f.get("day")), "ord": (y, f.get("doy")), "week": (y, f.get("week"), f.get("wday"))}[rep]
        elif base == "month":
            fld = (y, f["month"], 1)
        elif base == "year":
            fld = (y, 1, 1)
        elif base == "century":
            continue
        else:
            fld = (y, f["week"], 1)
        if not c.valid(rep, fld):
            return "invalid"
        tod = Fraction(f.get("h", 0)) * 3600 + Fraction(f.get("m", 0)) * 60 + Fraction(f.get("s", 0))
        if "frac" in f:
            tod += Fraction(int(f["frac"]), 10 ** len(f["frac"])) * {"fh": 3600, "fm": 60, "fs": 1}[f["frac_of"]]
        off = SEAM
        if "zh" in f:
            off = (-1 if f.get("zsign") == "-" else 1) * (f["zh"] * 60 + f.get("zm", 0))
        return rep, c.dn_from(rep, fld) * 86400 + tod, off
    return None


def check_diff(ctx, kind, a, b, off1, off2, total, fmt=None):
    argv = [a, b]
    if fmt:
        argv += ["-f", fmt]
    for o in off1:
        argv += ["--offset1=" + o]
    for o in off2:
        argv += ["--offset2=" + o]
    if total:
        argv += ["--as-total", total]
    if kind != "greg":
        argv += ["--calendar=" + A.MODE_OF[kind]]
    case = lambda: {"kind": "diff", "mode": kind, "argv": argv}  # noqa: E731
    sig = {"total": total, "off1": bool(off1), "off2": bool(off2)}
    if fmt:
        sig["fmt"] = fmt
    va, vb = diff_value(kind, a), diff_value(kind, b)
    ctx.transitions += 1
    res = run_main(argv)
    ctx.traces += 1
    if va == "invalid" or vb == "invalid":
        if res[0] != "exit" or res[1] in (0, None):
            ctx.violation("refuses_malformed", sig, case, "non-zero exit", list(res))
        return
    if res[0] != "out":
        ctx.violation("prints_result", dict(sig, got=res[0]), case, "a duration", list(res))
        return
    ia = shift(kind, va[0], va[1], off1) - va[2] * 60
    ib = shift(kind, vb[0], vb[1], off2) - vb[2] * 60
    delta = ib - ia
    out = res[1]
    if total:
        unit = {"h": 3600, "m": 60, "s": 1}[total.lower()]
        try:
            got = Fraction(float(out))
        except ValueError:
            ctx.violation("as_total", sig, case, float(delta / unit), out)
            return
        if abs(got - delta / unit) > Fraction(1, 10 ** 6):
            ctx.violation("as_total", sig, case, float(delta / unit), out)
        return
    if fmt:
        # the sign once in front, then each field letter replaced by that field of |d| (0 <= h < 24, 0 <= M, s < 60)
        mag = abs(delta)
        want = {"y": 0, "m": 0, "d": mag // 86400, "h": mag % 86400 // 3600, "M": mag % 3600 // 60, "s": mag % 60}
        pat = ("-" if delta < 0 else "") + "".join(
            "(?P<%s%d>\\d+(?:\\.\\d+)?)" % (ch, i) if ch in want else re.escape(ch) for i, ch in enumerate(fmt))
        mo = re.match("^" + pat + "$", out)
        bad = mo is None
        if mo:
            for name, txt in mo.groupdict().items():
                if abs(Fraction(txt) - want[name[0]]) > Fraction(1, 10 ** 6):
                    bad = True
        if bad:
            ctx.violation("duration_format", sig, case,
                          {"sign": "-" if delta < 0 else "", "fields": {k: str(v) for k, v in want.items()}}, out)
        ctx.outcome("diff_fmt_sign", (delta > 0) - (delta < 0))
        return
    d = dur_desc(out)
    if d is None or d["years"] or d["months"]:
        ctx.violation("duration_form", sig, case, "[-]PnDTnHnMnS", out)
        return
    ln = impl.duration_len({k: v for k, v in d.items() if k not in ("years", "months")})
    if ln != delta:
        ctx.violation("duration_value", sig, case, {"first_plus_d_is_second": str(delta)}, {"out": out, "seconds": str(ln)})
    if out.startswith("-") != (delta < 0):
        ctx.violation("duration_sign", sig, case, "'-' prefix iff the second precedes the first", out)
    ctx.outcome("diff_sign", (delta > 0) - (delta < 0))


# exact-interval items: text -> (direction, anchor text, interval seconds, repetitions or None)
REC_EXACT = {
    "R/2015-12-31T23:00-05:30/P1D": ("fwd", "2015-12-31T23:00-05:30", 86400, None),
    "R/PT12H/2016-02-29T00:00:00Z": ("back", "2016-02-29T00:00:00Z", 43200, None),
    "R12/2016-02-29T12Z/PT36H": ("fwd", "2016-02-29T12Z", 129600, 12),
    "R/+002015-12-31T00Z/P1W": ("fwd", "+002015-12-31T00Z", 604800, None),
    "R3/2016-01-31T00Z/P1W": ("fwd", "2016-01-31T00Z", 604800, 3),
    "R4/P1W/2016-03-01T06:00:00+01:00": ("end", "2016-03-01T06:00:00+01:00", 604800, 4),
    "R/P2W/2016-03-01T00Z": ("back", "2016-03-01T00Z", 1209600, None),
}
REC_ITEMS = ["R3/2016-01-31T00Z/P1W", "R4/P1W/2016-03-01T06:00:00+01:00", "R/P2W/2016-03-01T00Z",
             "R/2015-12-31T23:00-05:30/P1D", "R5/20160131T0000Z/P1M", "R3/P1M/2016-01-31T00Z", "R/PT12H/2016-02-29T00:00:00Z",
             "R2/2015-W53-4T06Z/2016-001T06Z", "R1/P1D/2016-366", "R/2016/2017", "R12/2016-02-29T12Z/PT36H", "R/P1Y/2016-02-29",
             "R/+002015-12-31T00Z/P1W"]


def check_recurrence(ctx, kind, text, nmax):
    argv = [text] + ([] if nmax is None else ["--max=%d" % nmax]) + ([] if kind == "greg" else ["--calendar", A.MODE_OF[kind]])
    case = lambda: {"kind": "recurrence", "mode": kind, "argv": argv}  # noqa: E731
    sig = {"max": nmax}
    ctx.transitions += 1
    res = run_main(argv)
    ctx.traces += 1
    n = 10 if nmax is None else nmax
    # library differential: the first N points of the series, one per line
    with environment():
        impl.set_mode(A.MODE_OF[kind])
        try:
            from metomi.isodatetime.parsers import TimeRecurrenceParser, TimePointParser, DurationParser
            rec = TimeRecurrenceParser(TimePointParser(), DurationParser()).parse(text)
            want = [str(p) for p in itertools.islice(iter(rec), n)]
            ok = True
        except ValueError:
            ok = False
    if not ok:
        if res[0] != "exit" or res[1] in (0, None):
            ctx.violation("refuses_malformed", sig, case, "non-zero exit", list(res))
        return
    if res[0] != "out":
        ctx.violation("prints_result", dict(sig, got=res[0]), case, want, list(res))
        return
    got = res[1].split("\n") if res[1] else []
    if got != want:
        ctx.violation("recurrence_points", sig, case, want, got)
    # with a print format every point is printed in that format (ISO notation or strftime), still one per line
    if nmax in (2, 3) and kind == "greg":
        from metomi.isodatetime.dumpers import TimePointDumper
        for fmt in ("CCYY-MM-DD", "CCYYDDDThhmmZ", "%Y/%m/%d %H:%M", "CCYY-Www-DThh:mm:ss+hh:mm"):
            ctx.transitions += 1
            resf = run_main(argv + ["-f", fmt])
            with environment():
                pts = list(itertools.islice(iter(rec), n))
                try:
                    wantf = [p.strftime(fmt) if "%" in fmt else TimePointDumper().dump(p, fmt) for p in pts]
                except ValueError:
                    wantf = None
            if wantf is not None and resf != ("out", "\n".join(wantf)):
                ctx.violation("recurrence_print_format", dict(sig, fmt=fmt), lambda: {"kind": "recurrence", "mode": kind, "argv": argv + ["-f", fmt]},
                              wantf, list(resf))
    ctx.outcome("lines", len(got))
    # for exact intervals the printed points are also judged by M: anchor + k * interval, in order
    spec = REC_EXACT.get(text)
    if spec is not None and kind == "greg":
        how, anchor_text, step, reps = spec
        av = diff_value(kind, anchor_text)
        a_inst = av[1] - av[2] * 60
        expect_n = n if reps is None else min(n, reps)
        if how == "fwd":
            insts = [a_inst + k * step for k in range(expect_n)]
        elif how == "back":
            insts = [a_inst - k * step for k in range(expect_n)]
        else:  # bounded duration/end, printed ascending
            insts = [a_inst - (reps - 1 - k) * step for k in range(expect_n)]
        got_i = []
        for ln in got:
            v = diff_value(kind, ln)
            got_i.append(None if v in (None, "invalid") else v[1] - v[2] * 60)
        if got_i != insts:
            ctx.violation("recurrence_instants", sig, case, [str(x) for x in insts], {"lines": got, "instants": [str(x) for x in got_i]})


def run_unit(unit, ctx):
    u = unit[0]
    impl.set_mode(None)
    if u == "shift":
        _, kind, oi, part = unit
        for i, entry in enumerate(items()):
            if i % 2 != part:
                continue
            ctx.state_count += 1
            ctx.sample(lambda: {"argv": [entry[0]] + OFFSET_LISTS[oi]})
            check_shift(ctx, kind, entry, OFFSET_LISTS[oi])
    elif u == "diff":
        kind = unit[1]
        for a in DIFF_ITEMS:
            for b in DIFF_ITEMS:
                ctx.state_count += 1
                check_diff(ctx, kind, a, b, [], [], None)
                check_diff(ctx, kind, a, b, [], [], None, fmt=DIFF_FORMATS[(DIFF_ITEMS.index(a) + DIFF_ITEMS.index(b)) % len(DIFF_FORMATS)])
        for a, b in itertools.product(DIFF_ITEMS[-5:], repeat=2):
            for fmt in DIFF_FORMATS:
                check_diff(ctx, kind, a, b, [], [], None, fmt=fmt)
        for a, b in itertools.product(DIFF_ITEMS[:6], repeat=2):
            for total in ("h", "M", "s", "H"):
                check_diff(ctx, kind, a, b, [], [], total)
            check_diff(ctx, kind, a, b, ["P1D"], ["-PT1H"], None)
            check_diff(ctx, kind, a, b, ["-P1M"], ["P1Y", "PT1S"], "s")
    elif u == "recurrence":
        kind = unit[1]
        for text in REC_ITEMS:
            for nmax in (None, 0, 1, 2, 3, 10, 11):
                ctx.state_count += 1
                check_recurrence(ctx, kind, text, nmax)
    elif u == "options":
        run_options(ctx)
    elif u == "malformed":
        run_malformed(ctx, unit[1])
    elif u == "subprocess":
        run_subprocess(ctx)


def run_options(ctx):
    ents = [e for i, e in enumerate(items()) if e[8] is not None and i % 7 == 0][:40]
    # --utc converts; the notation is kept
    for e in ents:
        ctx.state_count += 1
        check_shift(ctx, "greg", e, ["PT1H"], utc=True)
        check_shift(ctx, "greg", e, [], utc=True)
    # --utc converts FIRST, offsets (incl. months/years, which clamp on the date) apply to the UTC value
    dforms, tforms, zforms = mtext.date_forms(), mtext.time_forms(), mtext.zone_forms()
    dvu = {"year": 2016, "month": 3, "day": 31, "doy": 91, "week": 13, "wday": 4}
    tvu = {"h": 1, "m": 0, "s": 0, "frac": "0"}
    for dname in ("cal_ext", "cal_basic", "ord_ext", "week_basic"):
        dtoks, dkind, cls, rep = dforms[dname]
        for tname in ("hhmmss_ext", "hhmmss_basic", "hhmm_ext", "hhmm_basic"):
            ttoks, tkind, prec = tforms[tname]
            for zname in ("hhmm", "hh:mm"):
                ztoks, zkind = zforms[zname]
                if not mtext.compatible(dkind, tkind, zkind):
                    continue
                text = mtext.render(dtoks, dvu) + "T" + mtext.render(ttoks, tvu) + mtext.render(ztoks, ZVALS["hhmm"])
                entry = (text, dname, dtoks + [mtext.lit("T")] + ttoks + ztoks, rep, cls, dvu, tname, tvu, "hhmm")
                for offs in (["P1M"], ["-P1M"], ["P1Y"], ["P1M", "P1D"], ["-P1M", "PT1H"]):
                    ctx.state_count += 1
                    check_shift(ctx, "greg", entry, offs, utc=True)
                    check_shift(ctx, "greg", entry, offs, utc=False)
    # --parse-format (a strptime format that carries its own zone): the value is shifted / converted like any other and
    # printed with the same format
    pf = "%Y-%m-%dT%H:%M:%S%z"
    ptoks = dforms["cal_ext"][0] + [mtext.lit("T")] + tforms["hhmmss_ext"][0] + zforms["hhmm"][0]
    for dvp, tvp, zk in ((VECTORS[0][0], {"h": 0, "m": 30, "s": 0, "frac": "0"}, "hhmm"),
                         (VECTORS[1][0], {"h": 23, "m": 59, "s": 59, "frac": "0"}, "hhmm"), (dvu, tvu, "hhmm")):
        for zv_name, zv in (("hhmm", ZVALS["hhmm"]), ("neg", {"zsign": "-", "zh": 0, "zm": 30}), ("z0", {"zsign": "+", "zh": 0, "zm": 0})):
            text = mtext.render(ptoks, dict(dvp, **tvp, **zv))
            saved = ZVALS.get("_pf")
            ZVALS["_pf"] = zv
            entry = (text, "cal_ext", ptoks, "cal", "complete", dvp, "hhmmss_ext", tvp, "_pf")
            try:
                for offs in ([], ["P1D"], ["-P1M"], ["PT36H"]):
                    for utc in (False, True):
                        ctx.state_count += 1
                        check_shift(ctx, "greg", entry, offs, extra=["--parse-format", pf], utc=utc)
            finally:
                if saved is None:
                    ZVALS.pop("_pf", None)
    # calendar through the environment variable
    for kind in ("360", "365", "366"):
        for e in ents[:20]:
            ctx.state_count += 1
            check_shift(ctx, kind, e, ["P1M", "P1D"], env={"ISODATETIMECALENDAR": A.MODE_OF[kind]})
    # --calendar wins over the environment variable
    for e in ents[:10]:
        text = e[0]
        ctx.transitions += 2
        a = run_main([text, "-s", "P60D", "--calendar", "360day"], env={"ISODATETIMECALENDAR": "gregorian"})
        b = run_main([text, "-s", "P60D", "--calendar", "360day"])
        if a != b:
            ctx.violation("calendar_option_wins", {}, {"kind": "options", "argv": [text, "-s", "P60D", "--calendar", "360day"]},
                          list(b), list(a))
    # a command that names no calendar uses Gregorian, whatever an earlier command in the same process selected
    for first, env1 in ((["2000-02-28", "--calendar", "360day"], None), (["2000-02-28", "-s", "P1D"], {"ISODATETIMECALENDAR": "366day"}),
                        (["R2/2001-01-30T00Z/P1M", "--calendar=365day"], None)):
        for second in (["2000-02-28", "--offset=P2D"], ["20130101", "20140101"], ["2013-03-01T00Z", "--offset=-P1D"],
                       ["R3/2001-01-30T00Z/P1M"], ["2001-059", "-s", "P1D", "-f", "CCYY-MM-DD"]):
            ctx.transitions += 2
            ctx.state_count += 1
            alone = run_main(second)
            seq = run_main_sequence([first, second], [env1, None])[1]
            if (alone[0], str(alone[1])) != (seq[0], str(seq[1])):
                ctx.violation("calendar_default_after_earlier_command", {}, {"kind": "options", "argv": second, "after": first},
                              list(alone), list(seq))
    # every command prints what it prints alone, whatever commands ran before it in the same process (operators,
    # parsers and dumpers built by an earlier command must not leak their --utc / zone / calendar / format settings)
    cmds = [["R3/2016-01-31T00/PT6H"], ["R3/2016-01-31T00/PT6H", "--utc"], ["R2/PT6H/2016-01-31T06:00"],
            ["R2/PT6H/2016-01-31T06:00", "--utc"], ["2016-01-31T00"], ["2016-01-31T00", "--utc"], ["2016-01-31T00+01", "--utc"],
            ["20160131T0000", "20160201T0000Z"], ["20160131T0000", "20160201T0000Z", "--utc"],
            ["2016-02-30", "--calendar", "360day", "-s", "P1D"], ["+0020160131T00Z", "-s", "P1M"],
            ["2016-01-31T00", "-f", "CCYY-DDDThh:mm+hh:mm"], ["R2/2016-060/P1D", "-f", "CCYYMMDDThhZ"]]
    alone = {}
    for cmd in cmds:
        ctx.transitions += 1
        alone[tuple(cmd)] = run_main(cmd)
    # zone-less recurrence points are read in the system zone, or as UTC under --utc: judged by M on the suffix
    for cmd, first in ((cmds[0], "2016-01-31T00:00:00+05:30"), (cmds[1], "2016-01-31T00:00:00Z"),
                       (cmds[2], "2016-01-31T00:00:00+05:30"), (cmds[3], "2016-01-31T00:00:00Z")):
        res = alone[tuple(cmd)]
        lines = res[1].split("\n") if res[0] == "out" else []
        if not lines or lines[0] != first or any(ln[-6:] != first[-6:] for ln in lines):
            ctx.violation("recurrence_zone", {"utc": "--utc" in cmd}, {"kind": "options", "argv": cmd},
                          {"first_line": first, "every_line_ends": first[-6:]}, list(res))
    for first in cmds:
        for second in cmds:
            ctx.transitions += 1
            ctx.state_count += 1
            seq = run_main_sequence([first, second])[1]
            a = alone[tuple(second)]
            if (a[0], str(a[1])) != (seq[0], str(seq[1])):
                ctx.violation("independent_of_earlier_command", {"second_kind": "recurrence" if second[0][0] == "R" else "other"},
                              {"kind": "options", "argv": second, "after": first}, list(a), list(seq))
    for first in cmds[:6]:
        for mid in cmds[:6]:
            for second in cmds[:6]:
                ctx.transitions += 1
                seq = run_main_sequence([first, mid, second])[2]
                a = alone[tuple(second)]
                if (a[0], str(a[1])) != (seq[0], str(seq[1])):
                    ctx.violation("independent_of_earlier_command", {"second_kind": "recurrence" if second[0][0] == "R" else "other",
                                                                     "depth": 3},
                                  {"kind": "options", "argv": second, "after": [first, mid]}, list(a), list(seq))
    # ref: --ref and ISODATETIMEREF; now: the clock and zone seams
    for e in ents[:20]:
        text = e[0]
        for off in ([], ["P1D"]):
            argv_off = [x for o in off for x in ("-s", o)]
            ctx.transitions += 3
            direct = run_main([text] + argv_off)
            via_opt = run_main(["ref", "--ref", text] + argv_off)
            via_env = run_main(["ref"] + argv_off, env={"ISODATETIMEREF": text})
            if not (direct == via_opt == via_env):
                ctx.violation("ref_selects_reference", {}, {"kind": "options", "argv": ["ref", "--ref", text] + argv_off},
                              list(direct), {"--ref": list(via_opt), "ISODATETIMEREF": list(via_env)})
            both = run_main(["ref", "--ref", text] + argv_off, env={"ISODATETIMEREF": "1999-01-01T00Z"})
            if both != direct:
                ctx.violation("ref_option_wins", {}, {"kind": "options", "argv": ["ref", "--ref", text] + argv_off},
                              list(direct), list(both))
    c = M.cal("greg")
    for seam, utc in ((SEAM, False), (0, False), (-210, False), (SEAM, True)):
        for argv in ([], ["now"], ["now", "-s", "P1D"], ["-s", "-PT1S"]):
            av = list(argv) + (["--utc"] if utc else [])
            ctx.transitions += 1
            ctx.state_count += 1
            res = run_main(av, seam=seam)
            shift_s = 86400 if "P1D" in argv else (-1 if "-PT1S" in argv else 0)
            off = 0 if utc else seam
            local = Fraction(int(FakeClock.now)) + EPOCH + off * 60 + shift_s
            dn = int(local // 86400)
            tod = int(local - dn * 86400)
            y, mo, d = c.cal_from_dn(dn)
            zone = "Z" if off == 0 else "%s%02d:%02d" % ("-" if off < 0 else "+", abs(off) // 60, abs(off) % 60)
            want = "%04d-%02d-%02dT%02d:%02d:%02d%s" % (y, mo, d, tod // 3600, tod % 3600 // 60, tod % 60, zone)
            if res != ("out", want):
                ctx.violation("now", {"utc": utc, "seam": seam}, {"kind": "options", "argv": av, "seam": seam}, want, list(res))
    # print formats: library differential + M for two known formats
    from metomi.isodatetime.dumpers import TimePointDumper
    from metomi.isodatetime.parsers import TimePointParser
    for e in ents[:24]:
        text = e[0]
        for fmt in ("CCYY-DDD", "CCYYMMDDThhmmZ", "CCYY-Www-DThh:mm:ss+hh:mm", "%Y/%m/%d %H:%M:%S", "%s", "CCYY", "+XCCYY-MM-DDThh+01"):
            ctx.transitions += 1
            ctx.state_count += 1
            res = run_main([text, "-f", fmt, "-s", "PT1H"])
            with environment():
                try:
                    p = TimePointParser().parse(text) + impl.Duration(hours=1)
                    want = p.strftime(fmt) if "%" in fmt else TimePointDumper().dump(p, fmt)
                except ValueError as ex:
                    want = None
            if want is None:
                if res[0] != "exit":
                    ctx.violation("print_format", {"fmt": fmt}, {"kind": "options", "argv": [text, "-f", fmt]}, "exit", list(res))
            elif res != ("out", want):
                ctx.violation("print_format", {"fmt": fmt}, {"kind": "options", "argv": [text, "-f", fmt, "-s", "PT1H"]}, want, list(res))
    # print formats with directives only the Python datetime library knows fall back to it: the text POSIX strftime
    # gives for the civil date-time of the (shifted) value in its own offset; M supplies the civil fields
    import datetime as _dt
    cg = M.cal("greg")
    for text, rep, fld, tod in (("2016-02-29T06:31:01+05:45", "cal", (2016, 2, 29), 6 * 3600 + 31 * 60 + 1),
                                ("2016-060T23:30:00Z", "ord", (2016, 60), 23 * 3600 + 30 * 60),
                                ("2015-W53-4T12:00:00-05:00", "week", (2015, 53, 4), 12 * 3600),
                                ("19991231T235959Z", "cal", (1999, 12, 31), 86399)):
        local = cg.dn_from(rep, fld) * 86400 + tod + 3600
        y, mo, d = cg.cal_from_dn(local // 86400)
        t = local % 86400
        civil = _dt.datetime(y, mo, d, t // 3600, t % 3600 // 60, t % 60)
        for fmt in ("%A %d %B %Y", "%a %b %d %H:%M:%S %Y", "%y%m%d %I%p", "%d/%m/%y day %j week %U"):
            ctx.transitions += 1
            ctx.state_count += 1
            res = run_main([text, "-f", fmt, "-s", "PT1H"])
            if res != ("out", civil.strftime(fmt)):
                ctx.violation("print_format_fallback", {"fmt": fmt}, {"kind": "options", "argv": [text, "-f", fmt, "-s", "PT1H"]},
                              civil.strftime(fmt), list(res))
    # ... and on the days around New Year, where the ISO week-numbering year and the calendar year of one day differ: every
    # representation of the first and last four days of seven consecutive years, written in two offsets
    for yy in range(2015, 2022):
        for mo, dd in ((1, 1), (1, 2), (1, 3), (1, 4), (12, 28), (12, 29), (12, 30), (12, 31)):
            dn = cg.dn_from("cal", (yy, mo, dd))
            for rep, pat in (("cal", "%04d-%02d-%02d"), ("ord", "%04d-%03d"), ("week", "%04d-W%02d-%d")):
                for zone, tod in (("Z", 6 * 3600), ("+01:00", 23 * 3600 + 1800)):
                    text = pat % tuple(cg.from_dn(rep, dn)) + "T%02d:%02d:00" % (tod // 3600, tod % 3600 // 60) + zone
                    local = dn * 86400 + tod + 3600
                    y, mo2, d2 = cg.cal_from_dn(local // 86400)
                    t = local % 86400
                    civil = _dt.datetime(y, mo2, d2, t // 3600, t % 3600 // 60, t % 60)
                    for fmt in ("%a %d %b %Y", "%y %B %d %I%p"):
                        ctx.transitions += 1
                        ctx.state_count += 1
                        res = run_main([text, "-f", fmt, "-s", "PT1H"])
                        if res != ("out", civil.strftime(fmt)):
                            ctx.violation("print_format_fallback", {"fmt": fmt, "rep": rep, "year_edge": True},
                                          {"kind": "options", "argv": [text, "-f", fmt, "-s", "PT1H"]},
                                          civil.strftime(fmt), list(res))
    # the two strptime notations the command accepts besides ISO 8601 (ctime, Unix date): shifted by exact offsets and
    # printed back in the notation they were written in; the civil arithmetic is judged by the datetime library
    for text, fmt in (("Thu Jan 01 00:00:00 1970", "%a %b %d %H:%M:%S %Y"), ("Mon Feb 29 23:59:59 2016", "%a %b %d %H:%M:%S %Y"),
                      ("Thu 01 Jan 00:00:00 UTC 1970", "%a %d %b %H:%M:%S %Z %Y"), ("Thu 31 Dec 23:30:00 UTC 2015", "%a %d %b %H:%M:%S %Z %Y")):
        base = _dt.datetime.strptime(text.replace(" UTC", ""), fmt.replace(" %Z", ""))
        for offs, delta in (([], 0), (["P1D"], 86400), (["PT36H"], 129600), (["-P1W"], -604800), (["PT1H", "PT30M"], 5400)):
            for utc in (False, True):
                argv = [text] + [x for o in offs for x in ("-s", o)] + (["--utc"] if utc else [])
                ctx.transitions += 1
                ctx.state_count += 1
                res = run_main(argv)
                want = (base + _dt.timedelta(seconds=delta)).strftime(fmt.replace("%Z", "UTC"))
                if res != ("out", want):
                    ctx.violation("strptime_notation_kept", {"unix_date": "%Z" in fmt, "utc": utc},
                                  {"kind": "options", "argv": argv}, want, list(res))
    # --version prints the package version and nothing else
    import metomi.isodatetime as _pkg
    ctx.transitions += 1
    res = run_main(["--version"])
    if res != ("out", _pkg.__version__):
        ctx.violation("version", {}, {"kind": "options", "argv": ["--version"]}, _pkg.__version__, list(res))
    # --as-total of a duration item
    for text, secs in (("PT1H", 3600), ("P1DT1M", 86460), ("\\-PT1H30M", -5400), ("P1W", 604800), ("PT0.5S", Fraction(1, 2))):
        for unit_, div in (("s", 1), ("M", 60), ("h", 3600)):
            ctx.transitions += 1
            res = run_main(["--as-total", unit_, text])
            try:
                ok = res[0] == "out" and abs(Fraction(float(res[1])) - Fraction(secs) / div) < Fraction(1, 10 ** 9)
            except ValueError:
                ok = False
            if not ok:
                ctx.violation("as_total_duration", {"unit": unit_}, {"kind": "options", "argv": ["--as-total", unit_, text]},
                              float(Fraction(secs) / div), list(res))


EPOCH = M.cal("greg").dn_from_cal(1970, 1, 1) * 86400


def malformed_texts():
    from checks import c09
    base = ["2015-12-31T23:59:59Z", "20160229T063101+0545", "P1D", "R/2015-12-31T00Z/P1D"]
    out = []
    for s in base:
        for i, m in enumerate(c09.single_edits(s)):
            if i % 9 == 0:
                out.append(m)
    out += ["", " ", "T", "2015-02-30", "2015-13-01", "2015-366", "2015-W54-1", "2015-12-31T25", "2015-12-31T24:01",
            "2015-12-31T23:60", "2015-12-31T23:59:60", "2015-12-31T23:59:59+00:60", "R/", "R0/2015/P1D", "Rx/2015/P1D",
            "P", "PT", "P1", "1D", "P1H", "PT1D", "nope", "20151231T235959ZZ", "٢٠١٥-12-31", "2015-12-31T23:59:59²"]
    return out


def run_malformed(ctx, part):
    from metomi.isodatetime.parsers import TimePointParser, DurationParser, TimeRecurrenceParser
    good_item, good_off = "2015-12-31T23:59:59Z", "P1D"
    tp, dp, rp = TimePointParser(), DurationParser(), TimeRecurrenceParser()

    def parses(fn, s):
        with environment():
            try:
                fn(s)
                return True
            except ValueError:
                return False
            except Exception:
                return None

    if part == 0:
        # print formats that are neither the library's notation nor a supported strftime format: output or a non-zero
        # exit with a message, never a traceback
        for fmt in ("%-d", "%(year)s", "CCYY-MM-DD %(foo)s", "%", "CCYY%", "%Y-%", "100%", "%5Y", "%Y %(month_of_year)02d"):
            for argv in ([good_item, "-f", fmt], ["R2/" + good_item + "/P1D", "-f", fmt], [good_item, good_item, "-f", fmt]):
                ctx.transitions += 1
                ctx.state_count += 1
                res = run_main(argv)
                if res[0] == "exc":
                    ctx.violation("no_traceback", {"slot": "print_format", "exc": res[1].split(":")[0]},
                                  {"kind": "malformed", "slot": "print_format", "argv": argv, "env": None},
                                  "output or a non-zero exit with a message", res[1])
    for i, bad in enumerate(malformed_texts()):
        if i % 2 != part:
            continue
        ctx.state_count += 1
        slots = [("item", [bad]), ("item1_of_2", [bad, good_item]), ("item2_of_2", [good_item, bad]),
                 ("offset", [good_item, "--offset=" + bad]), ("offset1", [good_item, good_item, "--offset1=" + bad]),
                 ("offset2", [good_item, good_item, "--offset2=" + bad]), ("ref", ["ref", "--ref=" + bad]),
                 ("as_total", ["--as-total=s", bad]), ("env_ref", ["ref"])]
        for slot, argv in slots:
            env = {"ISODATETIMEREF": bad} if slot == "env_ref" else None
            ctx.transitions += 1
            res = run_main(argv, env)
            ctx.traces += 1
            case = {"kind": "malformed", "slot": slot, "argv": argv, "env": env}
            if res[0] == "exc":
                ctx.violation("no_traceback", {"slot": slot, "exc": res[1].split(":")[0]}, case,
                              "output or a non-zero exit with a message", res[1])
                continue
            # is the text acceptable in this slot at all? (the library's own parsers decide; a leading '-' or an empty
            # string changes what argparse/main see, so those are only required not to crash)
            if bad.startswith("-") or bad in ("", "now", "ref") or slot == "env_ref" and bad == "":
                continue
            if slot in ("item", "item1_of_2", "item2_of_2", "ref", "env_ref"):
                if slot == "item" and bad.startswith("R"):
                    acceptable = parses(rp.parse, bad)
                else:
                    acceptable = parses(tp.parse, bad) or _strptime_ok(bad)
            elif slot == "as_total":
                acceptable = parses(dp.parse, bad.replace("\\", "")) if not bad.startswith("R") else None
            else:
                acceptable = parses(dp.parse, bad[1:] if bad[:1] in "+-" else bad)
            if acceptable is False and (res[0] != "exit" or res[1] in (0, None)):
                ctx.violation("refuses_malformed", {"slot": slot}, case, "non-zero exit with a message", list(res))
            ctx.outcome("malformed_result", res[0])


def _strptime_ok(s):
    import time as _t
    for fmt in ("%a %b %d %H:%M:%S %Y", "%a %d %b %H:%M:%S %Z %Y", "%Y-%m-%dT%H:%M:%S", "%Y%m%dT%H%M%S"):
        try:
            _t.strptime(s, fmt)
            return True
        except ValueError:
            pass
    return False


def run_subprocess(ctx):
    """The in-process seam is validated against the real entry point: same bytes."""
    repo = os.environ.get("VERIF_REPO", "/repo")
    vectors = [["2015-12-31T23:59:59Z", "-s", "P1D"], ["20160229T063101+0545", "--offset=-PT1H"], ["2016-060T06:31:01-00:30"],
               ["2015-W53-4T23:59Z", "-s", "P1M", "-s", "-P1D"], ["2000-01-01T00Z", "2015-12-31T23:59:59Z"],
               ["2015-12-31T23:59:59Z", "2000-01-01T00Z", "--as-total", "h"], ["R3/2016-01-31T00Z/P1M"],
               ["R/PT12H/2016-02-29T00:00:00Z", "--max=3"], ["2016-02-30"], ["2015-12-31T23:59:59Z", "--offset=P1X"],
               ["2016-02-29T00Z", "--calendar", "360day", "-s", "P1D"], ["20160229T00Z", "-f", "CCYY-DDD"], ["--as-total", "s", "PT1H"],
               ["2015-12-31T23:59:59+01", "--utc"], ["ref", "--ref", "2015-365T00Z", "-s", "PT1M"], ["2016-02-29T06,5Z", "-s", "PT0.5H"]]
    env = dict(os.environ, PYTHONPATH=repo, TZ="UTC", PYTHONDONTWRITEBYTECODE="1")
    env.pop("ISODATETIMEREF", None)
    env.pop("ISODATETIMECALENDAR", None)
    for argv in vectors:
        ctx.state_count += 1
        ctx.transitions += 2
        p = subprocess.run([sys.executable, "-m", "metomi.isodatetime.main"] + argv, capture_output=True, text=True,
                           env=env, timeout=120)
        inproc = run_main(argv, seam=0)
        ctx.traces += 1
        if inproc[0] == "out":
            same = p.returncode == 0 and p.stdout == inproc[1] + "\n"
        elif inproc[0] == "exit":
            same = p.returncode != 0 if inproc[1] not in (0, None) else p.returncode == 0
            if same and isinstance(inproc[1], str) and ": " in inproc[1]:
                same = inproc[1].split(": ", 1)[1] in p.stderr
        else:
            same = False
        if "Traceback" in p.stderr:
            ctx.violation("no_traceback", {"slot": "subprocess"}, {"kind": "subprocess", "argv": argv}, "no traceback", p.stderr[-300:])
        if not same:
            ctx.violation("seam_validation", {}, {"kind": "subprocess", "argv": argv},
                          {"in_process": [inproc[0], str(inproc[1])]}, {"rc": p.returncode, "stdout": p.stdout, "stderr": p.stderr[-200:]})


def replay_case(case, ctx):
    impl.set_mode(None)
    k = case["kind"]
    if k == "shift":
        for u in units("quick"):
            if u[0] == "shift" and u[1] == case["mode"]:
                sub = type(ctx)(ctx.check_id, ctx.tier, ctx.seed)
                run_unit(u, sub)
                ctx.violations.extend(v for v in sub.violations if v["case"]["argv"] == case["argv"])
        if not ctx.violations:
            sub = type(ctx)(ctx.check_id, ctx.tier, ctx.seed)
            run_options(sub)
            ctx.violations.extend(v for v in sub.violations if v["case"].get("argv") == case["argv"])
    elif k == "diff":
        sub = type(ctx)(ctx.check_id, ctx.tier, ctx.seed)
        run_unit(("diff", case["mode"]), sub)
        ctx.violations.extend(v for v in sub.violations if v["case"]["argv"] == case["argv"])
    elif k == "recurrence":
        sub = type(ctx)(ctx.check_id, ctx.tier, ctx.seed)
        run_unit(("recurrence", case["mode"]), sub)
        ctx.violations.extend(v for v in sub.violations if v["case"]["argv"] == case["argv"])
    elif k == "options":
        sub = type(ctx)(ctx.check_id, ctx.tier, ctx.seed)
        run_options(sub)
        ctx.violations.extend(v for v in sub.violations if v["case"].get("argv") == case["argv"])
    elif k == "malformed":
        for part in (0, 1):
            sub = type(ctx)(ctx.check_id, ctx.tier, ctx.seed)
            run_malformed(sub, part)
            ctx.violations.extend(v for v in sub.violations if v["case"]["argv"] == case["argv"])
    else:
        run_subprocess(ctx)


def vacuity(tier, counters, outcomes):
    if outcomes.get("form", 0) < 150:
        return "fewer than 150 notations printed"
    if outcomes.get("diff_sign", 0) != 3:
        return "durations between date-times did not have all three signs"
    return None


def describe(tier):
    return {
        "rule": "date-times in every complete and reduced notation x time form x zone form (2 value vectors) x %d offset "
                "lists (incl. -P spellings), all 4 calendars; all ordered pairs of %d date-times (+ offsets, --as-total); "
                "%d recurrences x --max in {none,1,2,3,10,11} x 4 calendars; --utc, --ref/ISODATETIMEREF, "
                "ISODATETIMECALENDAR, now under clock/zone seams, print formats; malformed text (every 9th single-edit "
                "mutant of 4 expressions + a fixed list) in 9 argument slots; %d vectors also as a subprocess" % (
                    len(OFFSET_LISTS), len(DIFF_ITEMS), len(REC_ITEMS), 16),
        "bounds": {"system_offset_seam_min": SEAM},
        "alphabet_sizes": {"offset_lists": len(OFFSET_LISTS), "malformed_texts": len(malformed_texts())},
        "exhaustive": True,
        "assumptions": ["a positional item that begins with '-' (negative expanded year) is taken by argparse for an "
                        "option: a clean exit is the expected outcome",
                        "malformed environment variables for the calendar are outside the statement (arguments)"],
    }
