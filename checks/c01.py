"""C01 - adding an exact duration translates the instant exactly.

State: a valid point p (descriptor). Transitions: p + d, p - d, d + p for d in the duration
alphabet. Oracle: instant(q) == instant(p) + len(d) (exact domain: equality; else <= 1 us);
q keeps representation and offset; every field of q in its legal range; p - d == p + (-1*d).
"""
from fractions import Fraction

from isomc import impl, pools, alphabets as A, refmodel as M
from isomc.runner import HorizonExceeded

ID = "C01"
TITLE = "Adding an exact duration translates the instant exactly"
TOL = Fraction(1, 1000000)


def _kdev(tier):
    return 2 if tier == "quick" else 4


def units(tier):
    us = []
    for kind, rep, ts, zs, nd, years, days in pools.configs(_kdev(tier)):
        if tier == "quick":
            durs = "near" if nd == 0 else "core"
        else:
            durs = "near" if nd <= 1 else "core"
            if nd <= 2:
                years = A.Y_B if kind == "greg" or nd <= 1 else years
                days = "boundary"
        tkey = "whole" if ts is pools.T_WHOLE else "dev"
        zkey = "z0" if zs is pools.Z0 else "dev"
        ys = list(years)
        if rep != "cal" or kind != "greg":
            ys = [y for y in ys]  # same years; expanded years only in the default-ish configs
        chunk = 2 if days == "boundary" else 3
        for i in range(0, len(ys), chunk):
            us.append(("cfg", kind, rep, tkey, zkey, nd, ys[i:i + chunk], days, durs))
    # quick only: the configurations with 3 and 4 deviations on a compact pool (thorough explores them in full above)
    if tier == "quick":
        for kind, rep, ts, zs, nd, years, days in pools.configs(4):
            if nd >= 3:
                us.append(("corner", kind, rep, "whole" if ts is pools.T_WHOLE else "dev",
                           "z0" if zs is pools.Z0 else "dev", nd))
    # cancellation sweeps: the duration removes (or completes) exactly the decimal part of p's time of day
    for part in range(3):
        us.append(("cancel", "greg", part))
    # far durations from the small year set
    for kind in A.KINDS:
        for rep in pools.REPS:
            for y in A.Y_S:
                us.append(("far", kind, rep, y))
    for kind in A.KINDS:
        for rep in pools.REPS:
            us.append(("derived", kind, rep))
    # the same additions in mode A, then B, then A again within one process
    for a in A.KINDS:
        for b in A.KINDS:
            if a != b:
                us.append(("switch", a, b))
    # expanded years
    for rep in pools.REPS:
        us.append(("cfg", "greg", rep, "whole", "z0", 0, A.Y_EXP, "small", "core"))
    if tier == "thorough":
        for kind in A.KINDS:
            spans = [(2000, 2399), (1600, 1999), (-200, 199)] if kind == "greg" else [(1990, 2010), (-10, 10)]
            for a, b in spans:
                for y0 in range(a, b + 1, 10):
                    for rep in pools.REPS:
                        us.append(("sweep", kind, rep, y0, min(y0 + 9, b)))
    return us


def _tsets(tkey):
    return pools.T_WHOLE if tkey == "whole" else pools.T_DEV


Z_DEV_QUICK = [[-5, -30], [14, 0], [99, 59]]   # p + d never re-zones: a covering subset suffices for quick


def _zsets(zkey, tier="thorough"):
    if zkey == "z0":
        return pools.Z0
    return Z_DEV_QUICK if tier == "quick" else pools.Z_DEV


def cancel_cases(part):
    """(point, durations): every hundredth as the decimal of a second / minute / hour of a point on 2000-03-01 (so that a
    borrow crosses the leap day), with the durations that take exactly that much away again, or fill the unit up -
    written as decimal literals of their own, so that the two floats differ in the last bit and the sum lands a hair
    below or above a whole unit. Results must be in range whatever the noise."""
    out = []
    for cc in range(1, 100):
        for k in ((0, 1, 59) if part < 2 else (0, 1, 23)):
            if part == 0:
                t = ["hmsf", 0, 0, k, cc / 100.0]
                amount = float("%d.%02d" % (k, cc))
                ds = [{"seconds": -amount}, {"seconds": float("%d.%02d" % (59 - k, 100 - cc))}, {"minutes": -amount / 60}]
            elif part == 1:
                t = ["hmf", 0, k, cc / 100.0]
                secs = float("%.1f" % (cc * 0.6))
                ds = [{"minutes": -k, "seconds": -secs}, {"minutes": -float("%d.%02d" % (k, cc))},
                      {"minutes": float("%d.%02d" % (59 - k, 100 - cc))}]
            else:
                t = ["hf", k, cc / 100.0]
                mins = float("%.1f" % (cc * 0.6))
                ds = [{"hours": -k, "minutes": -mins}, {"hours": -float("%d.%02d" % (k, cc))},
                      {"hours": float("%d.%02d" % (23 - k, 100 - cc))}]
            for rep, f in (("cal", [2000, 3, 1]), ("ord", [2000, 61]), ("week", [2000, 9, 3])):
                out.append(({"rep": rep, "f": f, "t": t, "tz": [0, 0]}, ds))
    if part == 0:
        # a whole-second point and a decimal-minute / decimal-hour duration of the same length
        for tenth in range(1, 100):
            secs = tenth * 6
            out.append(({"rep": "cal", "f": [2000, 3, 1], "t": ["hms", 0, secs // 60, secs % 60], "tz": [0, 0]},
                        [{"minutes": -tenth / 10.0}, {"hours": -tenth / 600.0}]))
    return out


CORNER_Y = [2000, 2003, -1]
CORNER_T = pools.T_24 + [["hf", 23, 0.5], ["hmf", 12, 30, 0.3], ["hmsf", 23, 59, 59, 0.999999]]
CORNER_Z = [[-5, -30], [99, 59]]
SWEEP_T = [["hms", 0, 0, 0], ["hms", 23, 59, 59]]
SWEEP_D = [{"days": 1}, {"days": -1}, {"seconds": 1}, {"seconds": -1}, {"weeks": 1}, {"weeks": -1},
           {"days": 366}, {"days": -366}, {"hours": 24}, {"minutes": -1440}]
_DURS = {"near": pools.D_NEAR, "core": pools.D_CORE, "far": pools.D_FAR, "sweep": SWEEP_D}


class _Dur:
    """A duration of the alphabet, built once per unit: real object, its negation, model length."""
    __slots__ = ("desc", "obj", "neg", "len", "zero", "cls", "m900")

    def __init__(self, desc):
        self.desc = desc
        self.obj = impl.build_duration(desc)
        self.neg = -1 * self.obj
        ln = impl.duration_len(desc)
        self.len = int(ln) if ln.denominator == 1 else ln
        self.zero = ln == 0
        self.cls = pools.duration_class(desc)
        self.m900 = pools.subday_multiple_of_900(desc)


_DCACHE = {}


def _durs(name):
    if name not in _DCACHE:
        _DCACHE[name] = [_Dur(d) for d in _DURS[name]]
    return _DCACHE[name]


def check_point(ctx, kind, c, pdesc, durs):
    """All transitions p + d, p - d, d + p of one point p."""
    sig = {"rep": pdesc["rep"], "tform": pdesc["t"][0], "h24": pdesc["t"][1] == 24}
    try:
        p = impl.build_point(pdesc)
    except Exception as e:
        ctx.violation("construct", dict(sig, exc=type(e).__name__),
                      {"kind": "add", "mode": kind, "p": pdesc, "d": {}}, "valid operand accepted",
                      "raised %s: %s" % (type(e).__name__, e))
        return
    dn, tod, off = impl.model_point(pdesc, kind)
    want_rep, want_tz = pdesc["rep"], list(pdesc["tz"])
    if pdesc.get("via"):
        # a derived operand: a value reached through conversions/shifts, whose private state no constructor call
        # produces. What it denotes is read back from the object itself (alpha), not assumed.
        try:
            p = _derive(p, pdesc["via"])
        except Exception as e:
            ctx.count("derivation_failed(C03/C06's business)")
            return
        r0 = impl.alpha_fast(p, c)
        if r0[8] is not None:
            ctx.count("derived_operand_invalid(C03/C06's business)")
            return
        want_rep, want_tz = r0[0], [p._time_zone._hours, p._time_zone._minutes]
        dn, off = r0[6], r0[5]
        from fractions import Fraction as _F
        tod = _F(r0[7] - (dn * 86400 - off * 60))
    if tod.denominator == 1:
        tod = int(tod)
    inst_p = dn * 86400 + tod - off * 60
    tcls = pools.time_class(pdesc["t"])
    tform = pdesc["t"][0]
    key_p = impl.canon_point(p)
    try:
        hash(p)      # the operand has been hashed (and printed) before it is shifted: results must not inherit that
        str(p)
    except Exception:
        pass
    for k_du, du in enumerate(durs):
        ddesc = du.desc
        case = lambda: {"kind": "add", "mode": kind, "p": pdesc, "d": ddesc}  # noqa: E731
        impl.tick_reset()
        ctx.transitions += 4
        try:
            q = p + du.obj
            q2 = p - du.neg
            q3 = du.obj + p
            q4 = p - du.obj
        except HorizonExceeded as e:
            ctx.violation("terminates", sig, case, "p + d terminates", str(e))
            continue
        except Exception as e:
            ctx.violation("total", dict(sig, exc=type(e).__name__), case, "p + d / p - d / d + p return a TimePoint",
                          "raised %s: %s" % (type(e).__name__, e))
            continue
        ctx.traces += 1
        rep, f, h, m, s, qoff, qdn, qinst, problem = impl.alpha_fast(q, c)
        if problem is not None:
            ctx.violation("fields_valid", dict(sig, part="date" if "date" in problem else "time/zone"), case,
                          "every field in its legal range", {"result": impl.sstr(q), "why": problem})
            continue
        if h == 24 and not (du.zero and sig["h24"]):
            ctx.violation("fields_valid", dict(sig, part="h24"), case, "0 <= h < 24", impl.sstr(q))
        if rep != want_rep:
            ctx.violation("keeps_representation", sig, case, want_rep, rep)
        if qoff != off or [q._time_zone._hours, q._time_zone._minutes] != want_tz:
            ctx.violation("keeps_offset", sig, case, want_tz, [q._time_zone._hours, q._time_zone._minutes])
        exact = not (tcls == "general" or du.cls == "general") and (du.m900 or tform not in ("hf", "hmf"))
        if exact:
            ctx.counters["exact_domain"] = ctx.counters.get("exact_domain", 0) + 1
        else:
            ctx.counters["tolerance_domain"] = ctx.counters.get("tolerance_domain", 0) + 1
        want = inst_p + du.len
        if qinst != want and (exact or abs(qinst - want) > TOL):
            ctx.violation("instant", dict(sig, exact=exact), case,
                          {"instant": str(want), "as": _civil(kind, pdesc["rep"], want, off)},
                          {"instant": str(qinst), "result": impl.sstr(q), "error_s": float(qinst - want)})
        key = impl.canon_point(q)
        if impl.canon_point(q2) != key:
            ctx.violation("sub_is_add_neg", sig, case, impl.sstr(q), impl.sstr(q2))
        if impl.canon_point(q3) != key:
            ctx.violation("radd", sig, case, impl.sstr(q), impl.sstr(q3))
        r4 = impl.alpha_fast(q4, c)
        want4 = inst_p - du.len
        if r4[8] is not None or (r4[7] != want4 and (exact or abs(r4[7] - want4) > TOL)):
            ctx.violation("sub_instant", dict(sig, exact=exact), case, str(want4),
                          {"instant": str(r4[7]), "result": impl.sstr(q4), "why": r4[8]})
        if k_du % 5 == 0 and not q._dump_format:
            # differential oracle for derived values: a twin built by the constructor from q's fields answers alike
            try:
                tw = impl.fresh_twin(q)
                if tw is not None:
                    ctx.transitions += 3
                    if not (tw == q) or hash(tw) != hash(q) or str(tw) != str(q):
                        ctx.violation("derived_equals_constructed", sig, case, {"constructed": impl.sstr(tw), "hash": hash(tw)},
                                      {"derived": impl.sstr(q), "hash": hash(q), "eq": tw == q})
            except OverflowError:
                pass   # year outside the printable range of the agreed digits
            except Exception as e:
                ctx.violation("derived_equals_constructed", dict(sig, exc=type(e).__name__), case,
                              "a constructor twin of the result exists and compares", repr(e))
        ctx.outcome("day_carry", qdn - dn)
        ctx.outcome("year_carry", f[0] - pdesc["f"][0])
    if impl.canon_point(p) != key_p:
        ctx.violation("operand_unchanged", sig, {"kind": "add", "mode": kind, "p": pdesc, "d": {}},
                      "operand not modified by arithmetic", impl.sstr(p))


DERIVATIONS = ["cal", "ord", "week", "rezone", "ord>cal", "week>ord", "cal>week", "hms"]


def _derive(p, how):
    if how == "cal":
        return p.to_calendar_date()
    if how == "ord":
        return p.to_ordinal_date()
    if how == "week":
        return p.to_week_date()
    if how == "rezone":
        return p.to_time_zone(impl.TimeZone(hours=-3, minutes=-30))
    if how == "ord>cal":
        return p.to_ordinal_date().to_calendar_date()
    if how == "week>ord":
        return p.to_week_date().to_ordinal_date()
    if how == "cal>week":
        return p.to_calendar_date().to_week_date()
    if how == "hms":
        return p.to_hour_minute_second()
    raise ValueError(how)


def check_add(ctx, kind, pdesc, ddesc):
    check_point(ctx, kind, M.cal(kind), pdesc, [_Dur(ddesc)])


def _civil(kind, rep, inst, off):
    c = M.cal(kind)
    local = inst + off * 60
    dn = local // 86400
    return {"rep": rep, "f": list(c.from_dn(rep, int(dn))), "tod_s": str(local - dn * 86400)}


def run_unit(unit, ctx):
    u = unit[0]
    kind = unit[1]
    if u == "derived":
        impl.set_mode(A.MODE_OF[kind])
        c = M.cal(kind)
        rep = unit[2]
        years = [2000, 2004, 2020, 2021] if ctx.tier == "quick" else A.Y_S
        for pdesc in pools.point_descs(kind, rep, pools.T_WHOLE[:1] + pools.T_WHOLE[5:] + pools.T_24 + pools.T_DYADIC[:1],
                                       pools.Z0 + pools.Z_DEV[1:2], years, "small"):
            for via in DERIVATIONS:
                if via == rep or (via == "hms" and pdesc["t"][0] == "hms"):
                    continue
                ctx.state_count += 1
                check_point(ctx, kind, c, dict(pdesc, via=via), _durs("core"))
        ctx.maximum("max_ticks_per_execution", impl.max_ticks_seen())
        return
    if u == "switch":
        for kx in (unit[1], unit[2], unit[1]):
            impl.set_mode(A.MODE_OF[kx])
            cx = M.cal(kx)
            for rep in pools.REPS:
                for pdesc in pools.point_descs(kx, rep, pools.T_WHOLE[:1] + pools.T_WHOLE[5:], pools.Z0,
                                               [1999, 2000, 2004, 2005, 2020, 2021], "small"):
                    ctx.state_count += 1
                    check_point(ctx, kx, cx, pdesc, _durs("core"))
        ctx.maximum("max_ticks_per_execution", impl.max_ticks_seen())
        return
    impl.set_mode(A.MODE_OF[kind])
    c = M.cal(kind)
    if u == "cfg":
        _, _, rep, tkey, zkey, nd, years, days, durs = unit
        for pdesc in pools.point_descs(kind, rep, _tsets(tkey), _zsets(zkey, ctx.tier), years, days):
            ctx.state_count += 1
            ctx.sample(lambda: {"mode": kind, "p": pdesc, "d": _DURS[durs][0], "deviations": nd})
            check_point(ctx, kind, c, pdesc, _durs(durs))
    elif u == "corner":
        _, _, rep, tkey, zkey, nd = unit
        times = [pools.T_WHOLE[0], pools.T_WHOLE[-1]] if tkey == "whole" else CORNER_T
        zones = pools.Z0 if zkey == "z0" else CORNER_Z
        for pdesc in pools.point_descs(kind, rep, times, zones, CORNER_Y, "small"):
            ctx.state_count += 1
            ctx.sample(lambda: {"mode": kind, "p": pdesc, "d": _DURS["core"][0], "deviations": nd})
            check_point(ctx, kind, c, pdesc, _durs("core"))
        ctx.count("corner_configurations")
    elif u == "cancel":
        for pdesc, ddescs in cancel_cases(unit[2]):
            ctx.state_count += 1
            check_point(ctx, kind, c, pdesc, [_Dur(d) for d in ddescs])
        ctx.count("cancellation_sweeps")
    elif u == "far":
        rep = unit[2]
        for pdesc in pools.point_descs(kind, rep, pools.T_WHOLE[:1] + pools.T_24, pools.Z0 + pools.Z_DEV[1:2],
                                       [unit[3]], "small"):
            ctx.state_count += 1
            check_point(ctx, kind, c, pdesc, _durs("far"))
    elif u == "sweep":
        _, _, rep, y0, y1 = unit
        for pdesc in pools.point_descs(kind, rep, SWEEP_T, pools.Z0, range(y0, y1 + 1), "all"):
            ctx.state_count += 1
            check_point(ctx, kind, c, pdesc, _durs("sweep"))
    ctx.maximum("max_ticks_per_execution", impl.max_ticks_seen())


def replay_case(case, ctx):
    impl.set_mode(A.MODE_OF[case["mode"]])
    check_add(ctx, case["mode"], case["p"], case["d"])


def vacuity(tier, counters, outcomes):
    if outcomes.get("year_carry", 0) < 3:
        return "no year carries observed"
    if counters.get("tolerance_domain", 0) == 0 or counters.get("exact_domain", 0) == 0:
        return "one of the float domains is empty"
    return None


def describe(tier):
    k = _kdev(tier)
    return {
        "rule": "deviation-bounded product (<= %d deviations from {gregorian, calendar date, whole-second form, Z}) of "
                "boundary years x boundary days x representations x time forms x offsets, each shifted by every "
                "duration of the alphabet; in quick the 23 configurations with 3-4 deviations on a compact pool (3 years x 8 days x 2-4 "
                "time forms x 1-2 offsets); far durations from a small year set; %s" % (
                    k, "every day of three Gregorian cycles and of the fixed calendars' weekday cycles x 3 "
                    "representations x 10 unit shifts at 00:00:00 and 23:59:59" if tier == "thorough" else
                    "expanded years +-10000, +-999999"),
        "bounds": {"deviation_bound_completed": k, "years_boundary": len(A.Y_B), "years_small": len(A.Y_S),
                   "tolerance_s": 1e-6},
        "alphabet_sizes": {"durations_near": len(pools.D_NEAR), "durations_core": len(pools.D_CORE),
                           "durations_far": len(pools.D_FAR), "time_forms": len(pools.T_WHOLE) + len(pools.T_DEV),
                           "offsets": 1 + (len(Z_DEV_QUICK) if tier == "quick" else len(pools.Z_DEV)), "modes": 4, "representations": 3},
        "exhaustive": True,
        "assumptions": ["exact equality demanded only in the exact float domain (DESIGN section 4); 1 us elsewhere",
                        "a zero-length duration added to a 24:00 operand may return the operand's own 24:00"],
    }
