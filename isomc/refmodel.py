"""Reference model M: boring calendar arithmetic on integer day numbers and exact rationals.

Shares no code and no algorithm with metomi.isodatetime.data:
  * day 0 is 2000-01-01 in every calendar; day 2 (2000-01-03) is a Monday in every calendar;
  * year starts are closed forms (floor divisions), not walks;
  * instants are exact Fractions of seconds: dn*86400 + time_of_day - offset_minutes*60.
"""
from fractions import Fraction
from bisect import bisect_right

SEC_DAY = 86400

MODE_KIND = {
    "gregorian": "greg",
    "360day": "360", "360_day": "360",
    "365day": "365", "365_day": "365",
    "366day": "366", "366_day": "366",
}
KINDS = ("greg", "360", "365", "366")
KIND_MODE = {"greg": "gregorian", "360": "360day", "365": "365day", "366": "366day"}

_T360 = (30,) * 12
_T365 = (31, 28, 31, 30, 31, 30, 31, 31, 30, 31, 30, 31)
_T366 = (31, 29, 31, 30, 31, 30, 31, 31, 30, 31, 30, 31)


def _cum(table):
    out = [0]
    for n in table:
        out.append(out[-1] + n)
    return tuple(out)


class Cal:
    """One calendar: month-length tables + leap predicate."""

    def __init__(self, kind):
        assert kind in KINDS
        self.kind = kind
        if kind == "greg":
            self.common, self.leap = _T365, _T366
        elif kind == "360":
            self.common = self.leap = _T360
        elif kind == "365":
            self.common = self.leap = _T365
        else:
            self.common = self.leap = _T366
        self.cum_common, self.cum_leap = _cum(self.common), _cum(self.leap)
        self.len_common, self.len_leap = sum(self.common), sum(self.leap)

    # -- year structure -----------------------------------------------------------------
    def is_leap(self, y):
        """Leap rule *as the calendar defines it* (fixed calendars have no leap years;
        their single table is used for every year)."""
        if self.kind != "greg":
            return False
        return (y % 4 == 0 and y % 100 != 0) or y % 400 == 0

    def months(self, y):
        return self.leap if self.is_leap(y) else self.common

    def cum(self, y):
        return self.cum_leap if self.is_leap(y) else self.cum_common

    def year_len(self, y):
        return self.len_leap if self.is_leap(y) else self.len_common

    def month_len(self, y, m):
        return self.months(y)[m - 1]

    def year_start(self, y):
        """Day number of 1 January of year y (day 0 = 1 January 2000)."""
        if self.kind != "greg":
            return (y - 2000) * self.len_common
        # leap years in [2000, y) when y>=2000, or -(leap years in [y, 2000)) otherwise:
        # L(n) = number of leap years in (-inf, n) up to a constant = floor((n-1)/4) - ...
        def leaps_before(n):
            n -= 1
            return n // 4 - n // 100 + n // 400
        return (y - 2000) * 365 + leaps_before(y) - leaps_before(2000)

    def year_of_dn(self, dn):
        if self.kind != "greg":
            return 2000 + dn // self.len_common
        q, r = divmod(dn, 146097)  # one 400-year period
        y = 2000 + 400 * q + r // 366  # lower estimate inside the period; fix up
        while self.year_start(y + 1) <= dn:
            y += 1
        while self.year_start(y) > dn:
            y -= 1
        return y

    # -- validity -------------------------------------------------------------------------
    def valid_cal(self, y, m, d):
        return 1 <= m <= 12 and 1 <= d <= self.month_len(y, m)

    def valid_ord(self, y, doy):
        return 1 <= doy <= self.year_len(y)

    def valid_week(self, wy, w, wd):
        return 1 <= wd <= 7 and 1 <= w <= self.weeks_in_year(wy)

    # -- conversions ------------------------------------------------------------------------
    def dn_from_cal(self, y, m, d):
        return self.year_start(y) + self.cum(y)[m - 1] + d - 1

    def dn_from_ord(self, y, doy):
        return self.year_start(y) + doy - 1

    def ord_from_dn(self, dn):
        y = self.year_of_dn(dn)
        return y, dn - self.year_start(y) + 1

    def cal_from_dn(self, dn):
        y, doy = self.ord_from_dn(dn)
        cum = self.cum(y)
        m = bisect_right(cum, doy - 1)
        return y, m, doy - cum[m - 1]

    @staticmethod
    def weekday(dn):
        """Monday=1 .. Sunday=7; day 2 (2000-01-03) is a Monday."""
        return (dn - 2) % 7 + 1

    def week_year_start(self, wy):
        """Day number of the Monday of the week containing 4 January of wy."""
        jan4 = self.year_start(wy) + 3
        return jan4 - (self.weekday(jan4) - 1)

    def weeks_in_year(self, wy):
        return (self.week_year_start(wy + 1) - self.week_year_start(wy)) // 7

    def dn_from_week(self, wy, w, wd):
        return self.week_year_start(wy) + (w - 1) * 7 + wd - 1

    def week_from_dn(self, dn):
        y = self.year_of_dn(dn)
        wy = y + 1
        while self.week_year_start(wy) > dn:
            wy -= 1
        off = dn - self.week_year_start(wy)
        return wy, off // 7 + 1, off % 7 + 1

    def days_in_year_range(self, a, b):
        if a > b:
            return 0
        return self.year_start(b + 1) - self.year_start(a)

    # -- generic by representation ---------------------------------------------------------------
    def valid(self, rep, f):
        return {"cal": self.valid_cal, "ord": self.valid_ord, "week": self.valid_week}[rep](*f)

    def dn_from(self, rep, f):
        return {"cal": self.dn_from_cal, "ord": self.dn_from_ord, "week": self.dn_from_week}[rep](*f)

    def from_dn(self, rep, dn):
        return {"cal": self.cal_from_dn, "ord": self.ord_from_dn, "week": self.week_from_dn}[rep](dn)

    # -- nominal arithmetic ---------------------------------------------------------------------------
    def add_months_cal(self, y, m, d, n):
        """n single-month steps, each clamping the day to the target month's length."""
        step = 1 if n > 0 else -1
        for _ in range(abs(n)):
            m += step
            if m > 12:
                m, y = 1, y + 1
            elif m < 1:
                m, y = 12, y - 1
            d = min(d, self.month_len(y, m))
        return y, m, d

    def add_months(self, rep, f, n):
        """Months are added on the calendar-date view; the result is re-expressed in rep."""
        if n == 0:
            return tuple(f)
        y, m, d = self.cal_from_dn(self.dn_from(rep, f))
        y, m, d = self.add_months_cal(y, m, d, n)
        return tuple(self.from_dn(rep, self.dn_from_cal(y, m, d)))

    def add_years(self, rep, f, n):
        if n == 0:
            return tuple(f)
        if rep == "cal":
            y, m, d = f
            y += n
            return y, m, min(d, self.month_len(y, m))
        if rep == "ord":
            y, doy = f
            y += n
            return y, min(doy, self.year_len(y))
        wy, w, wd = f
        wy += n
        return wy, min(w, self.weeks_in_year(wy)), wd


_CALS = {k: Cal(k) for k in KINDS}


def cal(kind_or_mode):
    k = MODE_KIND.get(kind_or_mode, kind_or_mode)
    return _CALS[k]


def split_offset_minutes(o):
    """(hours, minutes) with both parts carrying the sign of o."""
    sign = -1 if o < 0 else 1
    a = abs(o)
    return sign * (a // 60), sign * (a % 60)


def valid_zone(h, m):
    if not (-99 <= h <= 99 and -59 <= m <= 59):
        return False
    if h > 0 and m < 0:
        return False
    if h < 0 and m > 0:
        return False
    return True


def valid_time(h, m, s):
    """h, m, s exact numbers (m or s may be None meaning absent)."""
    m0 = 0 if m is None else m
    s0 = 0 if s is None else s
    if h < 0 or m0 < 0 or s0 < 0:
        return False
    if h == 24:
        return m0 == 0 and s0 == 0
    return h < 24 and m0 < 60 and s0 < 60


def instant(dn, tod, offset_minutes):
    return Fraction(dn) * SEC_DAY + Fraction(tod) - offset_minutes * 60


# ------------------------------------------------------------------------------------------------
# self-check of M (run by every check invocation, sharded over the worker pool; result goes into
# the evidence)
# ------------------------------------------------------------------------------------------------
def selfcheck_units(tier="quick"):
    lo, hi = (1583, 2500) if tier != "thorough" else (1, 9999)
    step = 60 if tier != "thorough" else 250
    units = [("dt", a, min(a + step - 1, hi)) for a in range(lo, hi + 1, step)]
    for k in KINDS:
        spans = [(1590, 2410), (-410, 410)] if k == "greg" else [(1985, 2015), (-15, 15)]
        for a, b in spans:
            for x in range(a, b + 1, 60):
                units.append(("bij", k, x, min(x + 59, b)))
    return units


def selfcheck_unit(u):
    import datetime as _dt
    if u[0] == "dt":
        _, lo, hi = u
        g = cal("greg")
        d0 = _dt.date(2000, 1, 1).toordinal()
        n = 0
        dn = g.year_start(lo)
        assert dn == _dt.date(lo, 1, 1).toordinal() - d0
        for y in range(lo, hi + 1):
            assert g.year_start(y) == dn, y
            for doy in range(1, g.year_len(y) + 1):
                date = _dt.date.fromordinal(dn + d0)
                assert (date.year, date.month, date.day) == g.cal_from_dn(dn), dn
                assert g.dn_from_cal(date.year, date.month, date.day) == dn
                assert date.timetuple().tm_yday == doy and g.ord_from_dn(dn) == (y, doy)
                iso = date.isocalendar()
                assert (iso[0], iso[1], iso[2]) == g.week_from_dn(dn), dn
                assert g.dn_from_week(*g.week_from_dn(dn)) == dn
                dn += 1
                n += 1
        return ("dt", n, lo, hi)
    _, k, a, b = u
    c = cal(k)
    m = 0
    prev_w = None
    for dn in range(c.year_start(a), c.year_start(b + 1)):
        y, mo, d = c.cal_from_dn(dn)
        assert c.valid_cal(y, mo, d) and c.dn_from_cal(y, mo, d) == dn
        yy, doy = c.ord_from_dn(dn)
        assert yy == y and c.valid_ord(y, doy) and c.dn_from_ord(y, doy) == dn
        wy, w, wd = c.week_from_dn(dn)
        assert c.valid_week(wy, w, wd) and c.dn_from_week(wy, w, wd) == dn
        assert wd == c.weekday(dn)
        if prev_w is not None:
            assert (wy, w, wd) > prev_w
            assert wd == prev_w[2] % 7 + 1
        prev_w = (wy, w, wd)
        m += 1
    for y in range(a, b + 1):
        assert sum(c.months(y)) == c.year_len(y) == c.year_start(y + 1) - c.year_start(y)
        s = c.week_year_start(y)
        assert c.weekday(s) == 1 and s <= c.year_start(y) + 3 <= s + 6
        assert c.weeks_in_year(y) in (51, 52, 53)
        assert c.days_in_year_range(y, y + 3) == sum(c.year_len(z) for z in range(y, y + 4))
    return ("bij", m)


def selfcheck_merge(results):
    out = {"greg_vs_datetime_days": 0, "bijection_days": 0}
    los, his = [], []
    for r in results:
        if r[0] == "dt":
            out["greg_vs_datetime_days"] += r[1]
            los.append(r[2])
            his.append(r[3])
        else:
            out["bijection_days"] += r[1]
    out["greg_vs_datetime_years"] = [min(los), max(his)] if los else []
    return out


def selfcheck(tier="quick"):
    return selfcheck_merge([selfcheck_unit(u) for u in selfcheck_units(tier)])
