"""C09 - impossible dates and malformed text are rejected, cleanly.

(a) acceptance table: every field tuple in and one step around the legal ranges, through the
    constructor and through each text notation that can spell it; accepted <=> M says it is real.
(b) bounded mutation neighbourhood of the grammar: every single-edit mutant of a corpus with one
    valid expression per form, every two-cut splice of a core, every short string over a
    25-character alphabet, fed to the three parsers (time point parser in 4 configurations):
    a valid object or a ValueError-derived error, within the horizon.
"""
from fractions import Fraction

from isomc import impl, mtext, alphabets as A, refmodel as M
from isomc.runner import HorizonExceeded

ID = "C09"
TITLE = "Impossible dates and malformed text are rejected, cleanly"

SIGMA = list("0129-+:,.TZPWRYMDHS/ e\n") + ["٣", "²"]   # incl. an Arabic-Indic digit and a superscript 2
YEARS = {"greg": [2015, 2016, 1900, 2000, 0, -4, 2020, 9999], "360": [2015, 2016, 2000], "365": [2015, 2016, 2000],
         "366": [2015, 2016, 2000]}


def units(tier):
    us = []
    for kind in A.KINDS:
        us.append(("dates", kind))
        us.append(("text_dates", kind))
    for a in A.KINDS:
        for b in A.KINDS:
            if a != b:
                us.append(("switch", a, b))
    for kind in A.KINDS:
        us.append(("truncated_dates", kind))
    us.append(("strptime",))
    for part in range(3):
        us.append(("noise_recurrences", part))
    us.append(("times",))
    us.append(("text_times",))
    for h0 in range(-100, 101, 20):
        us.append(("zones", h0, min(h0 + 20, 101)))
    us.append(("text_zones",))
    n = len(corpus())
    for i in range(0, n, 4):
        us.append(("edits", i, min(i + 4, n)))
    core = 30 if tier == "quick" else 60
    for i in range(core):
        us.append(("splices", i, core))
    maxlen = 3 if tier == "quick" else 4
    for a in range(len(SIGMA)):
        us.append(("short", a, maxlen))
    if tier != "quick":
        for i in range(20):
            us.append(("double_edits", i))
    return us


# ------------------------------------------------------------------------------------------------
# (a) acceptance
# ------------------------------------------------------------------------------------------------
def _ctor(ctx, case, sig, kw, want_ok):
    ctx.transitions += 1
    try:
        p = impl.TimePoint(**kw)
        ok = True
    except ValueError:
        ok = False
    except Exception as ex:
        ctx.violation("error_type", dict(sig, exc=type(ex).__name__), case, "ValueError-derived refusal",
                      "raised %s: %s" % (type(ex).__name__, ex))
        return
    ctx.traces += 1
    ctx.outcome("ctor_accepts", ok)
    if ok != want_ok:
        ctx.violation("acceptance", dict(sig, want=want_ok), case, "accepted" if want_ok else "refused",
                      impl.sstr(p) if ok else "refused")


def _parse(ctx, parser, case, sig, text, want_ok):
    ctx.transitions += 1
    try:
        p = parser.parse(text)
        ok = True
    except ValueError:
        ok = False
    except Exception as ex:
        ctx.violation("error_type", dict(sig, exc=type(ex).__name__), case, "ValueError-derived refusal",
                      "raised %s: %s" % (type(ex).__name__, ex))
        return
    ctx.traces += 1
    ctx.outcome("parse_accepts", ok)
    if ok != want_ok:
        ctx.violation("acceptance", dict(sig, want=want_ok, via="text"), case, "accepted" if want_ok else "refused",
                      impl.sstr(p) if ok else "refused")


def _tp_parser(**kw):
    from metomi.isodatetime.parsers import TimePointParser
    return TimePointParser(**kw)


# ------------------------------------------------------------------------------------------------
# (b) corpus and mutants
# ------------------------------------------------------------------------------------------------
_CORPUS = None


def corpus():
    global _CORPUS
    if _CORPUS is not None:
        return _CORPUS
    out = []
    dv = {"year": 2015, "month": 12, "day": 31, "doy": 365, "week": 53, "wday": 4}
    tv = {"h": 6, "m": 31, "s": 1, "frac": "25"}
    zv = {"zsign": "-", "zh": 5, "zm": 30}
    dforms, tforms, zforms = mtext.date_forms(), mtext.time_forms(), mtext.zone_forms()
    # one valid expression per date form, per time form (with a compatible complete date), per zone form
    for dname, (dtoks, dkind, cls, rep) in dforms.items():
        f = dict(dv)
        if dname.lstrip("x") == "century":
            f["year"] = 2000
        out.append(mtext.render(dtoks, f, 2))
    for tname, (ttoks, tkind, prec) in tforms.items():
        dname = "cal_basic" if tkind == "basic" else "cal_ext"
        out.append(mtext.render(dforms[dname][0], dv) + "T" + mtext.render(ttoks, tv))
    for zname, (ztoks, zkind) in zforms.items():
        dname, tname = ("ord_basic", "hhmmss_basic") if zkind == "basic" else ("week_ext", "hhmm_ext")
        out.append(mtext.render(dforms[dname][0], dv) + "T" + mtext.render(tforms[tname][0], tv) + mtext.render(ztoks, zv))
    out.append("2015-12-31T24:00:00Z")
    # truncated forms
    for n, (toks, kind, props) in mtext.truncated_date_forms().items():
        f = {"yy": 15, "zdec": 5, "month": 12, "day": 31, "doy": 365, "week": 52, "wday": 4}
        out.append(mtext.render(toks, f))
    for n, (toks, kind, flds, ft) in mtext.truncated_time_forms().items():
        out.append("T" + mtext.render(toks, tv))
    out += ["T06", "---31T06:31", "-W-4T-31"]
    # durations
    out += ["P1Y2M3DT4H5M6S", "P1W", "-P1D", "PT1,5H", "PT0.25S", "P0Y", "P1M", "PT1M", "P0001-02-03T04:05:06",
            "P00010203T040506", "P0001-003T04", "-PT1H30M", "P12Y", "PT36H", "P2DT5,5H",
            # number spellings Python's float() knows and ISO 8601 does not
            "PT1e999S", "PT1e3S", "PT1_0S", "PT1.5e1H", "PT1infS", "PT1nanM"]
    # recurrences
    out += ["R/2015-12-31T00Z/P1D", "R5/20151231T0000Z/PT1H", "R3/P1M/2016-01-31T00:00:00Z", "R/2015/2016",
            "R2/2015-W53-4T06Z/2016-001T06Z", "R1/P1D/2015-365", "R10/+002015-12-31T06:31:01-05:30/P1Y2M",
            "R/PT12H/2015-12-31T00+01"]
    # recurrences whose points are truncated forms (only a parser told to accept truncated points can read them)
    out += ["R2/--0101/P1D", "R2/T00/T01", "R2/-0101/P1D", "R/P1D/---05", "R3/-W-1/PT1H", "R/15-12-31T06/P1M"]
    _CORPUS = out
    return out


def single_edits(s):
    seen = set()
    for i in range(len(s) + 1):
        for ch in SIGMA:
            m = s[:i] + ch + s[i:]
            if m not in seen:
                seen.add(m)
                yield m
    for i in range(len(s)):
        m = s[:i] + s[i + 1:]
        if m not in seen:
            seen.add(m)
            yield m
        for ch in SIGMA:
            if ch != s[i]:
                m = s[:i] + ch + s[i + 1:]
                if m not in seen:
                    seen.add(m)
                    yield m


_PARSERS = None


def parsers():
    global _PARSERS
    if _PARSERS is None:
        from metomi.isodatetime.parsers import DurationParser, TimeRecurrenceParser
        _PARSERS = [
            ("timepoint_default", _tp_parser(assumed_time_zone=(0, 0)).parse),
            ("timepoint_truncated", _tp_parser(allow_truncated=True, default_to_unknown_time_zone=True).parse),
            ("timepoint_basic_only", _tp_parser(allow_only_basic=True, assumed_time_zone=(5, 30)).parse),
            ("timepoint_ned0", _tp_parser(num_expanded_year_digits=0, assumed_time_zone=(0, 0)).parse),
            ("duration", DurationParser().parse),
            ("recurrence", TimeRecurrenceParser().parse),
            ("recurrence_truncated_points", TimeRecurrenceParser(
                timepoint_parser=_tp_parser(allow_truncated=True, assumed_time_zone=(0, 0))).parse),
        ]
    return _PARSERS


def check_text(ctx, text, origin):
    c = M.cal("greg")
    for pname, fn in parsers():
        case = lambda: {"kind": "text", "text": text, "parser": pname, "origin": origin}  # noqa: E731
        sig = {"parser": pname}
        ctx.transitions += 1
        impl._H.ticks = 0
        try:
            obj = impl.guarded(fn, text, seconds=20.0)
        except ValueError:
            ctx.traces += 1
            ctx.counters["refused"] = ctx.counters.get("refused", 0) + 1
            continue
        except HorizonExceeded as ex:
            ctx.violation("hang", sig, case, "terminates", str(ex))
            continue
        except Exception as ex:
            ctx.violation("error_type", dict(sig, exc=type(ex).__name__), case, "a valid object or a ValueError-derived error",
                          "raised %s: %s" % (type(ex).__name__, ex))
            continue
        ctx.traces += 1
        ctx.counters["accepted"] = ctx.counters.get("accepted", 0) + 1
        # whatever was accepted must be a valid object
        try:
            if isinstance(obj, impl.TimePoint):
                if not obj.truncated:
                    r = impl.alpha_fast(obj, c)
                    if r[8] is not None:
                        ctx.violation("accepted_invalid", sig, case, "a valid TimePoint", {"result": impl.sstr(obj), "why": r[8]})
            elif isinstance(obj, impl.TimeRecurrence):
                for pt in (obj.start_point, obj.end_point):
                    if pt is not None and pt.truncated:
                        ctx.count("recurrences_of_truncated_points_accepted(validity not defined)")
                    elif pt is not None:
                        r = impl.alpha_fast(pt, c)
                        if r[8] is not None:
                            ctx.violation("accepted_invalid", sig, case, "valid anchor points",
                                          {"result": impl.sstr(obj), "why": r[8]})
            elif isinstance(obj, impl.Duration):
                import math
                comps = [getattr(obj, a) for a in ("years", "months", "weeks", "days", "hours", "minutes", "seconds")]
                if any(v is not None and (isinstance(v, float) and not math.isfinite(v)) for v in comps):
                    ctx.violation("accepted_invalid", dict(sig, why="non-finite component"), case, "a Duration of finite length",
                                  repr(comps))
            else:
                ctx.violation("accepted_invalid", sig, case, "a library value", repr(type(obj)))
        except Exception as ex:
            ctx.violation("accepted_invalid", dict(sig, exc=type(ex).__name__), case, "inspectable object", repr(ex))


def run_unit(unit, ctx):
    u = unit[0]
    if u == "dates":
        kind = unit[1]
        impl.set_mode(A.MODE_OF[kind])
        c = M.cal(kind)
        for y in YEARS[kind]:
            ned = 0 if y >= 0 else 2
            base = {"year": y, "num_expanded_year_digits": ned}
            for mo in range(0, 14):
                for d in range(0, 33):
                    ctx.state_count += 1
                    want = 1 <= mo <= 12 and c.valid_cal(y, mo, d)
                    _ctor(ctx, {"kind": "ctor", "mode": kind, "kw": dict(base, month_of_year=mo, day_of_month=d)},
                          {"part": "cal"}, dict(base, month_of_year=mo, day_of_month=d), want)
            for doy in range(0, 368):
                ctx.state_count += 1
                _ctor(ctx, {"kind": "ctor", "mode": kind, "kw": dict(base, day_of_year=doy)}, {"part": "ord"},
                      dict(base, day_of_year=doy), c.valid_ord(y, doy))
            for w in range(0, 55):
                for wd in range(0, 9):
                    ctx.state_count += 1
                    _ctor(ctx, {"kind": "ctor", "mode": kind, "kw": dict(base, week_of_year=w, day_of_week=wd)},
                          {"part": "week"}, dict(base, week_of_year=w, day_of_week=wd), c.valid_week(y, w, wd))
        ctx.sample({"mode": kind, "ctor": {"year": 2015, "month_of_year": 2, "day_of_month": 30}})
    elif u == "switch":
        # the acceptance table is a function of the *active* mode: re-check the mode-dependent edges in mode B after
        # the same tuples were evaluated in mode A in this process (validation must not remember the other calendar)
        _, ka, kb = unit
        parser = _tp_parser(assumed_time_zone=(0, 0))
        for rnd, kind in enumerate((ka, kb, ka)):
            impl.set_mode(A.MODE_OF[kind])
            c = M.cal(kind)
            for y in (2015, 2016, 2019, 2020):
                base = {"year": y}
                for doy in (359, 360, 361, 364, 365, 366, 367):
                    ctx.state_count += 1
                    _ctor(ctx, {"kind": "ctor", "mode": kind, "kw": dict(base, day_of_year=doy), "after_mode": ka if rnd else None},
                          {"part": "ord", "switch": True}, dict(base, day_of_year=doy), c.valid_ord(y, doy))
                    text = "%04d-%03d" % (y, doy)
                    _parse(ctx, parser, {"kind": "parse", "mode": kind, "text": text, "after_mode": ka if rnd else None},
                           {"part": "ord", "switch": True}, text, c.valid_ord(y, doy))
                for mo, d in ((2, 28), (2, 29), (2, 30), (2, 31), (1, 30), (1, 31), (12, 30), (12, 31), (4, 30), (4, 31)):
                    ctx.state_count += 1
                    kw = dict(base, month_of_year=mo, day_of_month=d)
                    _ctor(ctx, {"kind": "ctor", "mode": kind, "kw": kw, "after_mode": ka if rnd else None},
                          {"part": "cal", "switch": True}, kw, c.valid_cal(y, mo, d))
                for w in (51, 52, 53, 54):
                    kw = dict(base, week_of_year=w, day_of_week=7)
                    _ctor(ctx, {"kind": "ctor", "mode": kind, "kw": kw, "after_mode": ka if rnd else None},
                          {"part": "week", "switch": True}, kw, c.valid_week(y, w, 7))
            max_week = max(c.weeks_in_year(y) for y in range(1990, 2030))
            for kw, want in ([({"truncated": True, "day_of_month": d}, 1 <= d <= max(c.leap)) for d in (30, 31, 32)] +
                             [({"truncated": True, "day_of_year": d}, 1 <= d <= c.len_leap) for d in (360, 361, 365, 366, 367)] +
                             [({"truncated": True, "week_of_year": w, "day_of_week": 1}, 1 <= w <= max_week) for w in (52, 53, 54)]):
                ctx.state_count += 1
                _ctor(ctx, {"kind": "ctor", "mode": kind, "kw": kw, "after_mode": ka if rnd else None},
                      {"part": "truncated", "switch": True}, kw, want)
    elif u == "truncated_dates":
        # a truncated date that carries a two-digit year is a date *in that year*: the same impossible days are refused
        kind = unit[1]
        impl.set_mode(A.MODE_OF[kind])
        c = M.cal(kind)
        parser = _tp_parser(allow_truncated=True, default_to_unknown_time_zone=True)
        tag = lambda k, **kw: dict({"kind": k, "mode": kind}, **kw)  # noqa: E731
        for yy in (0, 4, 15, 16, 19, 96, 99):
            base = {"year": yy, "truncated": True, "truncated_property": "year_of_century"}
            for mo in range(0, 14):
                for d in (0, 1, 28, 29, 30, 31, 32):
                    want = 1 <= mo <= 12 and c.valid_cal(yy, mo, d)
                    ctx.state_count += 1
                    kw = dict(base, month_of_year=mo, day_of_month=d)
                    _ctor(ctx, tag("ctor_truncated", kw=kw), {"part": "truncated_cal"}, kw, want)
                    for text in ("%02d-%02d-%02d" % (yy, mo, d), "%02d%02d%02d" % (yy, mo, d)):
                        _parse(ctx, parser, tag("parse_truncated", text=text), {"part": "truncated_cal"}, text, want)
            for doy in (0, 1, 59, 60, 360, 361, 365, 366, 367):
                kw = dict(base, day_of_year=doy)
                _ctor(ctx, tag("ctor_truncated", kw=kw), {"part": "truncated_ord"}, kw, c.valid_ord(yy, doy))
                for text in ("%02d-%03d" % (yy, doy), "%02d%03d" % (yy, doy)):
                    _parse(ctx, parser, tag("parse_truncated", text=text), {"part": "truncated_ord"}, text,
                           c.valid_ord(yy, doy))
            for w in (0, 1, 51, 52, 53, 54):
                for wd in (0, 1, 7, 8):
                    kw = dict(base, week_of_year=w, day_of_week=wd)
                    _ctor(ctx, tag("ctor_truncated", kw=kw), {"part": "truncated_week"}, kw, c.valid_week(yy, w, wd))
                    text = "%02d-W%02d-%d" % (yy, w, wd)
                    _parse(ctx, parser, tag("parse_truncated", text=text), {"part": "truncated_week"}, text,
                           c.valid_week(yy, w, wd))
        # year-less truncated dates name a day that recurs: admissible exactly when some year of the active calendar
        # has such a day (M: the longest month / leap-year month table / longest year / most weeks of any year)
        max_dom, max_doy = max(c.leap), c.len_leap
        max_week = max(c.weeks_in_year(y) for y in range(1990, 2030))
        for mo in range(0, 14):
            for d in (0, 1, 28, 29, 30, 31, 32):
                kw = {"truncated": True, "month_of_year": mo, "day_of_month": d}
                want = 1 <= mo <= 12 and 1 <= d <= c.leap[mo - 1]
                ctx.state_count += 1
                _ctor(ctx, tag("ctor_truncated", kw=kw), {"part": "truncated_yearless"}, kw, want)
                text = "--%02d-%02d" % (mo, d)
                _parse(ctx, parser, tag("parse_truncated", text=text), {"part": "truncated_yearless"}, text, want)
        for d in range(0, 34):
            kw = {"truncated": True, "day_of_month": d}
            ctx.state_count += 1
            _ctor(ctx, tag("ctor_truncated", kw=kw), {"part": "truncated_day_only"}, kw, 1 <= d <= max_dom)
            text = "---%02d" % d
            _parse(ctx, parser, tag("parse_truncated", text=text), {"part": "truncated_day_only"}, text, 1 <= d <= max_dom)
        for doy in (0, 1, 59, 60, 359, 360, 361, 364, 365, 366, 367, 400):
            kw = {"truncated": True, "day_of_year": doy}
            ctx.state_count += 1
            _ctor(ctx, tag("ctor_truncated", kw=kw), {"part": "truncated_doy_only"}, kw, 1 <= doy <= max_doy)
            text = "-%03d" % doy
            _parse(ctx, parser, tag("parse_truncated", text=text), {"part": "truncated_doy_only"}, text, 1 <= doy <= max_doy)
        for w in (0, 1, 2, 26, 50, 51, 52, 53, 54, 60):
            for wd in (None, 0, 1, 7, 8):
                kw = {"truncated": True, "week_of_year": w}
                text = "-W%02d" % w
                want = 1 <= w <= max_week
                if wd is not None:
                    kw["day_of_week"] = wd
                    text += "-%d" % wd
                    want = want and 1 <= wd <= 7
                ctx.state_count += 1
                _ctor(ctx, tag("ctor_truncated", kw=kw), {"part": "truncated_week_only"}, kw, want)
                _parse(ctx, parser, tag("parse_truncated", text=text), {"part": "truncated_week_only"}, text, want)
        for wd in range(0, 10):
            kw = {"truncated": True, "day_of_week": wd}
            ctx.state_count += 1
            _ctor(ctx, tag("ctor_truncated", kw=kw), {"part": "truncated_weekday_only"}, kw, 1 <= wd <= 7)
            text = "-W-%d" % wd
            _parse(ctx, parser, tag("parse_truncated", text=text), {"part": "truncated_weekday_only"}, text, 1 <= wd <= 7)
    elif u == "strptime":
        # the strptime entry point (with and without its dump_format keyword) refuses the same impossible values
        impl.set_mode(None)
        c = M.cal("greg")
        parser = _tp_parser(assumed_time_zone=(0, 0))
        for y in (2015, 2016):
            for mo in range(0, 14):
                for d in (0, 1, 28, 29, 30, 31, 32):
                    want = 1 <= mo <= 12 and c.valid_cal(y, mo, d)
                    text = "%04d-%02d-%02dT06:30:15" % (y, mo, d)
                    for dfmt in (None, "CCYYMMDDThhmmss"):
                        ctx.state_count += 1
                        ctx.transitions += 1
                        try:
                            p = parser.strptime(text, "%Y-%m-%dT%H:%M:%S", dump_format=dfmt)
                            ok = True
                        except ValueError:
                            ok = False
                        except Exception as ex:
                            ctx.violation("error_type", {"part": "strptime", "exc": type(ex).__name__},
                                          {"kind": "strptime", "text": text, "dump_format": dfmt}, "ValueError-derived", repr(ex))
                            continue
                        if ok != want:
                            ctx.violation("acceptance", {"part": "strptime", "want": want, "dump_format": bool(dfmt)},
                                          {"kind": "strptime", "text": text, "dump_format": dfmt}, want, ok)
                        elif ok and dfmt and str(p) != "%04d%02d%02dT063015" % (y, mo, d):
                            ctx.violation("acceptance", {"part": "strptime_dump_format", "want": want},
                                          {"kind": "strptime", "text": text, "dump_format": dfmt},
                                          "%04d%02d%02dT063015" % (y, mo, d), impl.sstr(p))
            for h, mi, s in ((24, 0, 0), (24, 0, 1), (25, 0, 0), (23, 60, 0), (23, 59, 60), (23, 59, 59), (0, 0, 0), (24, 1, 0)):
                text = "%04d-03-01T%02d:%02d:%02d" % (y, h, mi, s)
                for dfmt in (None, "CCYY-DDDThh:mm:ss"):
                    ctx.transitions += 1
                    try:
                        parser.strptime(text, "%Y-%m-%dT%H:%M:%S", dump_format=dfmt)
                        ok = True
                    except ValueError:
                        ok = False
                    if ok != M.valid_time(h, mi, s):
                        ctx.violation("acceptance", {"part": "strptime_time", "want": M.valid_time(h, mi, s), "dump_format": bool(dfmt)},
                                      {"kind": "strptime", "text": text, "dump_format": dfmt}, M.valid_time(h, mi, s), ok)
            for doy in (0, 1, 365, 366, 367):
                text = "%04d-%03d" % (y, doy)
                for dfmt in (None, "CCYY-MM-DD"):
                    ctx.transitions += 1
                    try:
                        parser.strptime(text, "%Y-%j", dump_format=dfmt)
                        ok = True
                    except ValueError:
                        ok = False
                    if ok != c.valid_ord(y, doy):
                        ctx.violation("acceptance", {"part": "strptime_ord", "want": c.valid_ord(y, doy), "dump_format": bool(dfmt)},
                                      {"kind": "strptime", "text": text, "dump_format": dfmt}, c.valid_ord(y, doy), ok)
    elif u == "text_dates":
        kind = unit[1]
        impl.set_mode(A.MODE_OF[kind])
        c = M.cal(kind)
        parser = _tp_parser(assumed_time_zone=(0, 0))
        for y in [yy for yy in YEARS[kind] if yy >= 0]:
            for mo in range(0, 14):
                for d in range(0, 33):
                    want = 1 <= mo <= 12 and c.valid_cal(y, mo, d)
                    for text in ("%04d-%02d-%02d" % (y, mo, d), "%04d%02d%02dT0000" % (y, mo, d)):
                        ctx.state_count += 1
                        _parse(ctx, parser, {"kind": "parse", "mode": kind, "text": text}, {"part": "cal"}, text, want)
            for doy in range(0, 368):
                for text in ("%04d-%03d" % (y, doy), "%04d%03d" % (y, doy)):
                    ctx.state_count += 1
                    _parse(ctx, parser, {"kind": "parse", "mode": kind, "text": text}, {"part": "ord"}, text,
                           c.valid_ord(y, doy))
            for w in range(0, 55):
                for wd in range(0, 9):
                    for text in ("%04d-W%02d-%d" % (y, w, wd), "%04dW%02d%d" % (y, w, wd)):
                        ctx.state_count += 1
                        _parse(ctx, parser, {"kind": "parse", "mode": kind, "text": text}, {"part": "week"}, text,
                               c.valid_week(y, w, wd))
    elif u == "times":
        impl.set_mode(None)
        for h in range(-1, 26):
            for mi in range(-1, 61):
                for s in range(-1, 61):
                    ctx.state_count += 1
                    kw = {"year": 2015, "hour_of_day": h, "minute_of_hour": mi, "second_of_minute": s}
                    _ctor(ctx, {"kind": "ctor", "mode": "greg", "kw": kw}, {"part": "time"}, kw, M.valid_time(h, mi, s))
        for kw, want in (({"hour_of_day": 5.5}, False), ({"hour_of_day": 6.0}, True), ({"minute_of_hour": 30.5}, False),
                         ({"second_of_minute": 59.5}, False), ({"month_of_year": 1.5}, False), ({"day_of_month": 2.0}, True),
                         ({"hour_of_day": 23, "hour_of_day_decimal": 0.999999}, True),
                         ({"hour_of_day": 24, "hour_of_day_decimal": 0.5}, False),
                         ({"hour_of_day": 24, "hour_of_day_decimal": 0.0}, True),
                         ({"hour_of_day": 23, "hour_of_day_decimal": 1.0}, False),
                         ({"hour_of_day": 23, "hour_of_day_decimal": -0.5}, False),
                         ({"hour_of_day": 23, "minute_of_hour": 59, "minute_of_hour_decimal": 1.0}, False),
                         ({"hour_of_day": 24, "minute_of_hour": 0, "minute_of_hour_decimal": 0.5}, False),
                         ({"hour_of_day": 23, "minute_of_hour": 59, "second_of_minute": 59, "second_of_minute_decimal": 1.5}, False),
                         ({"hour_of_day": 24, "minute_of_hour": 0, "second_of_minute": 0, "second_of_minute_decimal": 0.5}, False)):
            kw = dict(kw, year=2015)
            _ctor(ctx, {"kind": "ctor", "mode": "greg", "kw": kw}, {"part": "time_nonintegral"}, kw, want)
    elif u == "text_times":
        impl.set_mode(None)
        parser = _tp_parser(assumed_time_zone=(0, 0))
        for h in range(0, 26):
            for mi in range(0, 61):
                for s in range(0, 61):
                    want = M.valid_time(h, mi, s)
                    for text in ("2015-12-31T%02d:%02d:%02d" % (h, mi, s), "20151231T%02d%02d%02d" % (h, mi, s)):
                        ctx.state_count += 1
                        _parse(ctx, parser, {"kind": "parse", "mode": "greg", "text": text}, {"part": "time"}, text, want)
                if True:
                    text = "2015-12-31T%02d:%02d" % (h, mi)
                    _parse(ctx, parser, {"kind": "parse", "mode": "greg", "text": text}, {"part": "time"}, text,
                           M.valid_time(h, mi, 0))
            for fr in ("0", "5", "999999"):
                text = "2015-12-31T%02d,%s" % (h, fr)
                want = h < 24 or (h == 24 and int(fr) == 0)
                _parse(ctx, parser, {"kind": "parse", "mode": "greg", "text": text}, {"part": "time_decimal"}, text, want)
    elif u == "zones":
        impl.set_mode(None)
        for zh in range(unit[1], unit[2]):
            for zm in range(-60, 61):
                ctx.state_count += 1
                kw = {"year": 2015, "time_zone_hour": zh, "time_zone_minute": zm}
                _ctor(ctx, {"kind": "ctor", "mode": "greg", "kw": kw}, {"part": "zone"}, kw, M.valid_zone(zh, zm))
                ctx.transitions += 1
                try:
                    impl.TimeZone(hours=zh, minutes=zm)
                    ok = True
                except ValueError:
                    ok = False
                except Exception as ex:
                    ctx.violation("error_type", {"part": "zone", "exc": type(ex).__name__},
                                  {"kind": "zone", "h": zh, "m": zm}, "ValueError-derived", repr(ex))
                    continue
                if ok != M.valid_zone(zh, zm):
                    ctx.violation("acceptance", {"part": "zone", "want": M.valid_zone(zh, zm)},
                                  {"kind": "zone", "h": zh, "m": zm}, M.valid_zone(zh, zm), ok)
    elif u == "text_zones":
        impl.set_mode(None)
        parser = _tp_parser()
        for sign in "+-":
            for zh in range(0, 100):
                for zm in range(0, 61):
                    for text in ("2015-12-31T06:31:01%s%02d:%02d" % (sign, zh, zm), "20151231T063101%s%02d%02d" % (sign, zh, zm)):
                        ctx.state_count += 1
                        _parse(ctx, parser, {"kind": "parse", "mode": "greg", "text": text}, {"part": "zone"}, text, zm < 60)
    elif u == "noise_recurrences":
        # start/second-point recurrences whose two points are one instant in two decimal spellings (the parser
        # subtracts them to get the interval): a valid object or a ValueError, whatever the float noise
        from isomc import collide
        impl.set_mode(None)
        for xd, yd in collide.noise_pairs(unit[1]):
            x, y = impl.sstr(impl.build_point(xd)), impl.sstr(impl.build_point(yd))
            for text in ("R/%s/%s" % (x, y), "R2/%s/%s" % (y, x)):
                ctx.state_count += 1
                check_text(ctx, text, "noise pair")
    elif u == "edits":
        impl.set_mode(None)
        for s in corpus()[unit[1]:unit[2]]:
            ctx.sample({"corpus_string": s, "mutants": "all single edits over %d characters" % len(SIGMA)})
            check_text(ctx, s, "corpus")
            for m in single_edits(s):
                ctx.state_count += 1
                check_text(ctx, m, "edit of " + s)
    elif u == "splices":
        impl.set_mode(None)
        cp = corpus()
        core = cp[:: max(1, len(cp) // unit[2])][:unit[2]]
        a = core[unit[1]]
        seen = set()
        for b in core:
            for i in range(len(a) + 1):
                for j in range(len(b) + 1):
                    m = a[:i] + b[j:]
                    if m in seen:
                        continue
                    seen.add(m)
                    ctx.state_count += 1
                    check_text(ctx, m, "splice")
    elif u == "short":
        impl.set_mode(None)
        a, maxlen = unit[1], unit[2]

        def rec(prefix):
            ctx.state_count += 1
            check_text(ctx, prefix, "short")
            if len(prefix) < maxlen:
                for ch in SIGMA:
                    rec(prefix + ch)
        rec(SIGMA[a])
        if a == 0:
            check_text(ctx, "", "short")
    elif u == "double_edits":
        impl.set_mode(None)
        cp = corpus()
        s = cp[:: max(1, len(cp) // 20)][unit[1]]
        seen = set()
        for m1 in single_edits(s):
            for m2 in single_edits(m1):
                if m2 in seen:
                    continue
                seen.add(m2)
                ctx.state_count += 1
                check_text(ctx, m2, "double edit of " + s)


def replay_case(case, ctx):
    k = case["kind"]
    if k == "text":
        impl.set_mode(None)
        check_text(ctx, case["text"], case.get("origin"))
        return
    mode = case.get("mode", "greg")
    impl.set_mode(A.MODE_OF[mode])
    c = M.cal(mode)
    if k == "ctor":
        kw = case["kw"]
        y = kw.get("year")
        if "month_of_year" in kw and "day_of_month" in kw:
            want = 1 <= kw["month_of_year"] <= 12 and c.valid_cal(y, kw["month_of_year"], kw["day_of_month"])
        elif "day_of_year" in kw:
            want = c.valid_ord(y, kw["day_of_year"])
        elif "week_of_year" in kw:
            want = c.valid_week(y, kw["week_of_year"], kw["day_of_week"])
        elif "time_zone_hour" in kw:
            want = M.valid_zone(kw["time_zone_hour"], kw["time_zone_minute"])
        elif "second_of_minute" in kw and "minute_of_hour" in kw and "second_of_minute_decimal" not in kw:
            want = M.valid_time(kw["hour_of_day"], kw["minute_of_hour"], kw["second_of_minute"])
        else:
            want = None
        if want is not None:
            _ctor(ctx, case, {"part": "replay"}, kw, want)
        else:
            for un in (("times",),):
                run_unit(un, ctx)
    elif k == "parse":
        for un in (("text_dates", mode), ("text_times",), ("text_zones",)):
            sub = type(ctx)(ctx.check_id, ctx.tier, ctx.seed)
            run_unit(un, sub)
            ctx.violations.extend(v for v in sub.violations if v["case"].get("text") == case["text"])
    elif k == "zone":
        run_unit(("zones", case["h"], case["h"] + 1), ctx)
    elif k in ("ctor_truncated", "parse_truncated"):
        run_unit(("truncated_dates", case.get("mode", "greg")), ctx)
    elif k == "strptime":
        run_unit(("strptime",), ctx)


def vacuity(tier, counters, outcomes):
    if outcomes.get("ctor_accepts", 0) != 2 or outcomes.get("parse_accepts", 0) != 2:
        return "acceptance table never had both answers"
    if counters.get("accepted", 0) < 1000 or counters.get("refused", 0) < 1000:
        return "mutants were (almost) all accepted or all refused"
    return None


def describe(tier):
    return {
        "rule": "(a) constructor and text: month 0-13 x day 0-32, day-of-year 0-367, week 0-54 x weekday 0-8 for every "
                "year type and mode; hour -1..25 x minute -1..60 x second -1..60; zone hours -100..100 x minutes -60..60; "
                "non-integral values. (b) corpus of %d valid expressions (one per form of each parser): every single-edit "
                "mutant over a %d-character alphabet (incl. non-ASCII digits), every two-cut splice of a %d-string core, "
                "every string of length <= %d%s; each fed to 6 parsers" % (
                    len(corpus()), len(SIGMA), 30 if tier == "quick" else 60, 3 if tier == "quick" else 4,
                    "" if tier == "quick" else ", every double edit of a 20-string core"),
        "bounds": {"watchdog_s": 20, "tick_budget": 200000},
        "alphabet_sizes": {"sigma": len(SIGMA), "corpus": len(corpus())},
        "exhaustive": True,
        "assumptions": ["'all strings' is bounded to the distance-1 (thorough: distance-2 for a core) mutation "
                        "neighbourhood, splices and short strings"],
    }
