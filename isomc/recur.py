"""Recurrence alphabet and builders shared by C12, C13, C14.

Descriptor: {"fmt": 1|3|4, "n": None|int, "anchor": pdesc, "dur": ddesc, "via": "ctor"|"parser"}
  fmt 3: R[n]/anchor/dur           (anchor is the start)
  fmt 4: R[n]/dur/anchor           (anchor is the end)
  fmt 1: R[n]/anchor/second        (second = anchor + dur, computed with the library's +; the
                                    interval the recurrence denotes is second - anchor)
"""
import itertools

from isomc import refmodel as M

EXACT = [{"seconds": 1}, {"hours": 1}, {"minutes": 90}, {"days": 1}, {"hours": 36}, {"weeks": 1},
         {"days": 7}, {"days": 366}, {"seconds": 0}, {"hours": 1, "minutes": -60}, {"seconds": 1.5}, {"seconds": 0.25}]
NOMINAL = [{"months": 1}, {"months": 2}, {"years": 1}, {"years": 4}, {"months": 1, "days": 2},
           {"years": 1, "months": 1}, {"months": 1, "hours": 1}]
# exact intervals with decimal seconds that are not binary fractions (C12 only: bound tests under rounding noise)
EXACT_DECIMAL = [{"seconds": 0.3}, {"seconds": 0.1}]
NS = [None, 1, 2, 3, 4, 7]
CAP = 12


def is_nominal(d):
    return bool(d.get("years") or d.get("months"))


def is_zero(d):
    """Zero *length* (components may cancel: PT1H-60M)."""
    if is_nominal(d):
        return False
    return (d.get("weeks", 0) * 604800 + d.get("days", 0) * 86400 + d.get("hours", 0) * 3600 +
            d.get("minutes", 0) * 60 + d.get("seconds", 0)) == 0


def anchors(kind, tier="quick"):
    """Point descriptors: month ends, leap day, year end with an offset, day-of-year last, last ISO
    week day 7, a 24:00 form, a decimal form - each in all three representations."""
    c = M.cal(kind)
    out = []
    seen = set()

    def add(dn, t, z):
        for rep in ("cal", "ord", "week"):
            f = list(c.from_dn(rep, dn))
            key = (rep, tuple(f), tuple(t), tuple(z))
            if key in seen:
                continue
            seen.add(key)
            out.append({"rep": rep, "f": f, "t": t, "tz": z})

    y = 2016
    add(c.dn_from_cal(y, 1, c.month_len(y, 1)), ["hms", 0, 0, 0], [0, 0])          # 31 Jan
    add(c.dn_from_cal(y, 5, c.month_len(y, 5)), ["hms", 0, 0, 0], [0, 0])          # 31 May
    add(c.dn_from_cal(y, 2, c.month_len(y, 2)), ["hms", 12, 0, 0], [0, 0])         # leap day / last of Feb
    add(c.dn_from_cal(2015, 12, c.month_len(2015, 12)), ["hms", 23, 0, 0], [-5, -30])
    add(c.dn_from_ord(y, c.year_len(y)), ["hms", 0, 0, 0], [1, 0])                 # day 366 / last day
    add(c.dn_from_week(2015, c.weeks_in_year(2015), 7), ["hms", 6, 0, 0], [0, 0])  # last week, Sunday
    add(c.dn_from_cal(y, 1, c.month_len(y, 1) - 1), ["hms", 24, 0, 0], [0, 0])     # 24:00 form
    add(c.dn_from_cal(y, 3, 1), ["hf", 6, 0.25], [0, 0])                            # decimal-hour form
    add(c.dn_from_cal(y, 12, 1), ["hmf", 23, 50, 0.5], [0, 0])                      # decimal-minute form
    add(c.dn_from_cal(y, 1, c.month_len(y, 1)) - 1, ["hms", 19, 0, 0], [-5, 0])    # = 31 Jan 00:00Z, local date the 30th
    add(c.dn_from_cal(2000, 1, 1), ["hms", 0, 0, 0], [0, 0])
    if tier != "quick":
        for yy in (2015, 2016, 2017):
            for m in range(1, 13):
                add(c.dn_from_cal(yy, m, c.month_len(yy, m)), ["hms", 0, 0, 0], [0, 0])
    return out


def descriptors(kind, tier="quick"):
    ns = NS if tier == "quick" else NS + [13]
    for a in anchors(kind, tier):
        for d in EXACT + NOMINAL:
            for n in ns:
                for fmt in (3, 4, 1):
                    if fmt == 1 and is_nominal(d):
                        continue
                    for via in ("ctor", "parser"):
                        yield {"fmt": fmt, "n": n, "anchor": a, "dur": d, "via": via}


def mixed_sign(d):
    vals = [v for v in d.values() if v]
    return any(v > 0 for v in vals) and any(v < 0 for v in vals)


def build(impl, desc):
    """-> (recurrence, anchor point, duration object, second point or None)"""
    a = impl.build_point(desc["anchor"])
    d = impl.build_duration(desc["dur"])
    fmt, n = desc["fmt"], desc["n"]
    second = a + d if fmt == 1 else None
    if desc["via"] == "ctor":
        if fmt == 3:
            r = impl.TimeRecurrence(repetitions=n, start_point=a, duration=d)
        elif fmt == 4:
            r = impl.TimeRecurrence(repetitions=n, end_point=a, duration=d)
        else:
            r = impl.TimeRecurrence(repetitions=n, start_point=a, end_point=second)
    else:
        from metomi.isodatetime.parsers import TimeRecurrenceParser
        prefix = "R/" if n is None else "R%d/" % n
        if fmt == 3:
            s = prefix + str(a) + "/" + str(d)
        elif fmt == 4:
            s = prefix + str(d) + "/" + str(a)
        else:
            s = prefix + str(a) + "/" + str(second)
        r = TimeRecurrenceParser().parse(s)
    return r, a, d, second


def take(r, limit):
    return list(itertools.islice(iter(r), limit))


# ------------------------------------------------------------------------------------------------
# M's nominal walk (used to narrow the known finding F3 to its mechanism)
# ------------------------------------------------------------------------------------------------
def m_shift(c, rep, local_s, ddesc, mult):
    """M: local second count after adding ddesc*mult: exact part, then months, then years."""
    from fractions import Fraction
    exact = (Fraction(ddesc.get("weeks", 0)) * 604800 + Fraction(ddesc.get("days", 0)) * 86400 +
             Fraction(ddesc.get("hours", 0)) * 3600 + Fraction(ddesc.get("minutes", 0)) * 60 +
             Fraction(ddesc.get("seconds", 0))) * mult
    local_s = local_s + exact
    dn = int(local_s // 86400)
    tod = local_s - dn * 86400
    f = c.from_dn(rep, dn)
    f = c.add_months(rep, f, ddesc.get("months", 0) * mult)
    f = c.add_years(rep, f, ddesc.get("years", 0) * mult)
    return c.dn_from(rep, f) * 86400 + tod


def m_walk_hits_end(impl, kind, anchor, ddesc, n):
    """Does a forward walk from (end - d*(n-1)) land exactly on the end after n-1 steps, monotonically?
    (That derivation is how the library documents duration/end recurrences.)"""
    c = M.cal(kind)
    dn, tod, _ = impl.model_point(anchor, kind)
    end = dn * 86400 + tod
    p = m_shift(c, anchor["rep"], end, ddesc, -(n - 1))
    for _ in range(n - 1):
        q = m_shift(c, anchor["rep"], p, ddesc, 1)
        if q <= p:
            return False
        p = q
    return p == end
