"""C20 - adding a truncated time point finds the next matching date-time.

States: (truncated t, full p). Transitions: t + p, p + t, t + (t + p).
Oracle: M's brute-force next match (day scan), operand-order agreement, idempotence, valid
fields, p's offset, termination within a tick horizon.
"""
from fractions import Fraction

from isomc import impl, pools, alphabets as A, refmodel as M
from isomc.runner import HorizonExceeded

ID = "C20"
TITLE = "Adding a truncated time point finds the next matching date-time"
TICK_BUDGET = 20000          # longest legitimate walk is ~3000 tick-overs (8-year gap to the next day 366)
SCAN_DAYS = 9 * 366 + 10
HANG_EXPAND = 3              # non-terminating cases expanded per class and unit; the rest are counted


# ------------------------------------------------------------------------------------------------
# truncated shapes: descriptor {"time": {h,m,s subset}, "day": {designator...}, "tz": [h,m] | None}
# ------------------------------------------------------------------------------------------------
def time_only_shapes(tier):
    out = [{"h": h} for h in range(0, 25)]
    out += [{"m": m} for m in range(60)]
    out += [{"s": s} for s in range(60)]
    out += [{"h": 6, "m": 30}, {"h": 0, "m": 0}, {"h": 23, "m": 59}, {"h": 6, "m": 0}, {"h": 12, "m": 1}]
    out += [{"h": 6, "m": 30, "s": 15}, {"h": 0, "m": 0, "s": 0}, {"h": 23, "m": 59, "s": 59}, {"h": 6, "m": 0, "s": 1}]
    out += [{"m": 30, "s": 15}, {"m": 0, "s": 0}, {"m": 59, "s": 59}, {"m": 0, "s": 30}]
    return out


DAY_TIME_SHAPES = [{}, {"h": 6}, {"h": 6, "m": 30}, {"m": 30}, {"s": 15}]


def day_shapes(tier):
    out = [{"dom": d} for d in range(1, 32)]
    doys = range(1, 367) if tier != "quick" else (1, 2, 31, 59, 60, 61, 200, 359, 360, 361, 365, 366)
    out += [{"doy": d} for d in doys]
    out += [{"wd": d} for d in range(1, 8)]
    weeks = range(1, 54) if tier != "quick" else (1, 2, 26, 51, 52, 53)
    wds = (1, 4, 7)
    out += [{"week": w, "wd": d} for w in weeks for d in wds]
    return out


T_ZONES_QUICK = [None, [0, 0], [-5, -30]]   # an explicit +00:00 is a *known* zone, distinct from unknown
T_ZONES = [None, [0, 0], [-5, -30], [14, 0]]


def t_kwargs(t):
    kw = {"truncated": True}
    tm = t["time"]
    if "h" in tm:
        kw["hour_of_day"] = tm["h"]
    if "m" in tm:
        kw["minute_of_hour"] = tm["m"]
    if "s" in tm:
        kw["second_of_minute"] = tm["s"]
    dy = t["day"]
    for k, name in (("dom", "day_of_month"), ("doy", "day_of_year"), ("wd", "day_of_week"), ("week", "week_of_year")):
        if k in dy:
            kw[name] = dy[k]
    if t.get("tz") is not None:
        kw["time_zone_hour"], kw["time_zone_minute"] = t["tz"]
    return kw


def t_text(t):
    """The truncated ISO 8601:2000 spelling (extended where there is a choice), or None."""
    dy, tm = t["day"], t["time"]
    if "dom" in dy:
        ds = "---%02d" % dy["dom"]
    elif "doy" in dy:
        ds = "-%03d" % dy["doy"]
    elif "week" in dy:
        ds = "-W%02d-%d" % (dy["week"], dy["wd"])
    elif "wd" in dy:
        ds = "-W-%d" % dy["wd"]
    else:
        ds = ""
    if not tm:
        ts = ""
    elif "h" in tm:
        ts = "T%02d" % tm["h"] + (":%02d" % tm["m"] if "m" in tm else "") + (":%02d" % tm["s"] if "s" in tm else "")
    elif "m" in tm:
        ts = "T-%02d" % tm["m"] + (":%02d" % tm["s"] if "s" in tm else "")
    else:
        ts = "T--%02d" % tm["s"]
    if not ts:
        return ds if t.get("tz") is None else None   # a zone can only follow a time
    z = t.get("tz")
    if z is not None:
        ts += "Z" if z == [0, 0] else "%s%02d:%02d" % ("-" if (z[0] < 0 or z[1] < 0) else "+", abs(z[0]), abs(z[1]))
    return ds + ts


# ------------------------------------------------------------------------------------------------
# M: brute-force next match
# ------------------------------------------------------------------------------------------------
_DAYINFO = {}


def _day_info(c, dn):
    """(day of month, day of year, week, weekday) of dn, memoised per calendar (pure function of M)."""
    k = (c.kind, dn)
    v = _DAYINFO.get(k)
    if v is None:
        w = c.week_from_dn(dn)
        v = _DAYINFO[k] = (c.cal_from_dn(dn)[2], c.ord_from_dn(dn)[1], w[1], w[2])
    return v


def day_matches(c, dn, dy):
    if not dy:
        return True
    dom, doy, week, wd = _day_info(c, dn)
    if "dom" in dy:
        return dom == dy["dom"]
    if "doy" in dy:
        return doy == dy["doy"]
    if "week" in dy:
        return week == dy["week"] and wd == dy["wd"]
    return wd == dy["wd"]


def time_candidates(tm):
    """Sorted list of matching times of day (seconds), or None when no time field is named."""
    if not tm:
        return None
    hs = [tm["h"]] if "h" in tm else range(24)
    if "m" in tm:
        ms = [tm["m"]]
    else:
        ms = [0] if "h" in tm else range(60)
    if "s" in tm:
        ss = [tm["s"]]
    else:
        ss = [0]
    return sorted(h * 3600 + m * 60 + s for h in hs for m in ms for s in ss if h < 24)


def next_match(c, ldn, ltod, t):
    """Earliest (dn, tod) >= (ldn, ltod) in local terms matching t, or None within SCAN_DAYS."""
    cands = time_candidates(t["time"])
    for dn in range(ldn, ldn + SCAN_DAYS):
        if not day_matches(c, dn, t["day"]):
            continue
        if cands is None:
            return dn, ltod
        for tod in cands:
            if dn > ldn or tod >= ltod:
                return dn, tod
    return None


def is_match(c, dn, tod, t):
    if not day_matches(c, dn, t["day"]):
        return False
    cands = time_candidates(t["time"])
    return True if cands is None else tod in cands


# ------------------------------------------------------------------------------------------------
P_TIMES = [["hms", 0, 0, 0], ["hms", 6, 30, 0], ["hms", 6, 29, 59], ["hms", 6, 30, 1], ["hms", 23, 59, 59],
           ["hms", 6, 30, 15], ["hms", 6, 0, 0], ["hms", 24, 0, 0]]
# full points that are not on a whole second (binary fractions: exact), in every time form
P_FRAC = [["hmsf", 6, 29, 59, 0.5], ["hmsf", 0, 0, 0, 0.5], ["hmsf", 6, 30, 0, 0.25], ["hmsf", 23, 59, 59, 0.5],
          ["hmf", 6, 29, 0.5], ["hf", 5, 0.75], ["hf", 6, 0.5]]


def p_pool(kind, which, tier):
    c = M.cal(kind)
    if which == "small":
        years, times, reps, offs = [2001], P_TIMES + P_FRAC, ["cal"], [[0, 0], [5, 45]]
        days = lambda y: (1, 59, c.year_len(y))  # noqa: E731
    else:
        years = [2001, 2004] if (tier != "quick" or kind == "greg") else [2001]
        times = P_TIMES[:2] + P_TIMES[4:5] + P_TIMES[7:] if tier == "quick" else P_TIMES[:3] + P_TIMES[4:5] + P_TIMES[7:]
        times = times + P_FRAC[:1] + P_FRAC[4:6]
        reps, offs = pools.REPS, [[-12, 0]]
        days = lambda y: pools.days_small(c, y)  # noqa: E731
    out = []
    for y in years:
        for doy in days(y):
            dn = c.dn_from_ord(y, doy)
            for rep in reps:
                f = list(c.from_dn(rep, dn))
                for t in times:
                    for z in offs:
                        out.append({"rep": rep, "f": f, "t": t, "tz": z})
    return out


def _gap_points(c):
    out = []
    for (y, mo, d) in ((1896, 12, 28), (1897, 1, 1), (1897, 6, 15), (1897, 11, 21), (1896, 3, 1), (2296, 12, 29), (2297, 6, 15)):
        dn = c.dn_from_cal(y, mo, d)
        for rep in pools.REPS:
            out.append({"rep": rep, "f": list(c.from_dn(rep, dn)), "t": ["hms", 6, 30, 0], "tz": [0, 0]})
    return out


def units(tier):
    us = []
    tz = T_ZONES_QUICK if tier == "quick" else T_ZONES
    for kind in A.KINDS:
        shapes = time_only_shapes(tier)
        for i in range(0, len(shapes), 40):
            us.append(("time", kind, i, i + 40))
        ds = day_shapes(tier)
        step = 2
        for i in range(0, len(ds), step):
            us.append(("day", kind, i, i + step))
        us.append(("parsed", kind))
        if kind == "greg":
            us.append(("noise", kind))
    return us


class _Hang:
    def __init__(self):
        self.n = {}

    def skip(self, key):
        return self.n.get(key, 0) >= HANG_EXPAND

    def hit(self, key):
        self.n[key] = self.n.get(key, 0) + 1


def check_case(ctx, kind, c, t, pdesc, hang, tobj=None):
    case = lambda: {"kind": "tp", "mode": kind, "t": t, "p": pdesc}  # noqa: E731
    dy, tm = t["day"], t["time"]
    sig = {"p24": pdesc["t"][1] == 24, "day_designator": bool(dy), "hour_given": "h" in tm, "time_field_given": bool(tm),
           "hour_of_day": tm.get("h"), "t_zone": "known" if t.get("tz") is not None else "unknown"}
    # designators the constructor itself refuses in this mode have that refusal as the expected outcome
    try:
        tp = tobj if tobj is not None else impl.TimePoint(**t_kwargs(t))
    except ValueError:
        ok_refusal = ("dom" in dy and dy["dom"] > max(c.leap)) or ("doy" in dy and dy["doy"] > c.len_leap) or \
            ("week" in dy and dy["week"] > max(c.weeks_in_year(y) for y in range(1990, 2030)))
        if not ok_refusal:
            ctx.violation("construct_truncated", sig, case, "truncated point accepted", "refused")
        else:
            ctx.count("designators_refused_by_constructor")
        return
    p = impl.build_point(pdesc)
    dn, tod, off = impl.model_point(pdesc, kind)
    tod = int(tod) if tod.denominator == 1 else tod
    inst_p = dn * 86400 + tod - off * 60
    zoff = off if t.get("tz") is None else t["tz"][0] * 60 + t["tz"][1]
    local = inst_p + zoff * 60
    ldn, ltod = divmod(local, 86400)
    want = next_match(c, ldn, ltod, t)
    frac_p = not isinstance(tod, int)
    hkey = (tm.get("h") == 24, tuple(sorted(dy.items())) if want is None else None, frac_p and bool(tm))
    sig["no_match_exists"] = want is None
    if frac_p:
        sig["p_on_whole_second"] = False
    if pdesc["t"][0] in ("hf", "hmf") and (zoff - off) % 15 != 0:
        sig["inexact_rezone_of_decimal_p"] = True   # p is read in t's zone through float arithmetic
    if hang.skip(hkey):
        ctx.count("nonterminating_class_cases_not_expanded")
        ctx.cap("hang_expansion", "at most %d non-terminating executions are run to the horizon per class and unit; "
                "the remaining cases of such a class are counted, not run" % HANG_EXPAND)
        return
    impl._H.ticks = 0
    saved = impl._H.budget
    impl._H.budget = TICK_BUDGET
    ctx.transitions += 1
    try:
        q = impl.guarded(lambda: tp + p, seconds=30.0)
    except HorizonExceeded as ex:
        hang.hit(hkey)
        ctx.violation("terminates", sig, case, "t + p terminates" + ("" if want else " (no match exists: a clean error)"),
                      str(ex))
        return
    except ValueError as ex:
        if want is None:
            ctx.count("clean_error_when_no_match_exists")
        else:
            ctx.violation("total", dict(sig, exc=type(ex).__name__), case, "t + p returns the next match",
                          "raised %s: %s" % (type(ex).__name__, ex))
        return
    except Exception as ex:
        ctx.violation("total", dict(sig, exc=type(ex).__name__), case, "t + p returns the next match",
                      "raised %s: %s" % (type(ex).__name__, ex))
        return
    finally:
        impl._H.budget = saved
        ctx.maximum("max_ticks_per_execution", impl._H.ticks)
    ctx.traces += 1
    r = impl.alpha_fast(q, c)
    if r[8] is not None:
        ctx.violation("valid_result", sig, case, "a valid date-time", {"result": impl.sstr(q), "why": r[8]})
        return
    if want is None:
        ctx.violation("no_match_returns_value", sig, case, "no date-time matches: an error, not a value", impl.sstr(q))
        return
    if r[5] != off:
        ctx.violation("result_offset", sig, case, pdesc["tz"], [q._time_zone._hours, q._time_zone._minutes])
    want_inst = want[0] * 86400 + want[1] - zoff * 60
    got_local = r[7] + zoff * 60
    gdn, gtod = divmod(got_local, 86400)
    if not is_match(c, int(gdn), gtod, t) or r[7] < inst_p:
        ctx.violation("is_match", sig, case, {"matches_t_and_not_earlier_than_p": True},
                      {"result": impl.sstr(q), "local_in_t_zone": [list(c.cal_from_dn(int(gdn))), str(gtod)]})
    elif r[7] != want_inst:
        sig = dict(sig, same_day_as_earliest=(int(gdn) == want[0]))
        ctx.violation("earliest", sig, case, {"instant": str(want_inst), "local": [list(c.cal_from_dn(want[0])), want[1]]},
                      {"result": impl.sstr(q), "later_by_s": str(r[7] - want_inst)})
    ctx.outcome("days_ahead", want[0] - ldn)
    # other operand order, idempotence
    impl._H.ticks = 0
    ctx.transitions += 2
    try:
        q2 = impl.guarded(lambda: p + tp, seconds=30.0)
        if impl.canon_point(q2) != impl.canon_point(q):
            ctx.violation("operand_order", sig, case, impl.sstr(q), impl.sstr(q2))
        q3 = impl.guarded(lambda: tp + q, seconds=30.0)
        r3 = impl.alpha_fast(q3, c)
        if r3[8] is not None or r3[7] != r[7]:
            ctx.violation("idempotent", sig, case, impl.sstr(q), impl.sstr(q3))
    except HorizonExceeded as ex:
        ctx.violation("terminates", sig, case, "p + t and t + (t + p) terminate", str(ex))
    except Exception as ex:
        ctx.violation("total", dict(sig, exc=type(ex).__name__), case, "p + t and t + (t + p) work",
                      "raised %s: %s" % (type(ex).__name__, ex))


def run_unit(unit, ctx):
    u, kind = unit[0], unit[1]
    impl.set_mode(A.MODE_OF[kind])
    c = M.cal(kind)
    hang = _Hang()
    tzs = T_ZONES_QUICK if ctx.tier == "quick" else T_ZONES
    if u == "time":
        ps = p_pool(kind, "small", ctx.tier)
        for tm in time_only_shapes(ctx.tier)[unit[2]:unit[3]]:
            for z in tzs:
                t = {"time": tm, "day": {}, "tz": z}
                ctx.state_count += 1
                ctx.sample(lambda: {"mode": kind, "t": t, "p": ps[0]})
                for pdesc in ps:
                    check_case(ctx, kind, c, t, pdesc, hang)
    elif u == "day":
        ps = p_pool(kind, "full", ctx.tier)
        for dy in day_shapes(ctx.tier)[unit[2]:unit[3]]:
            for tm in DAY_TIME_SHAPES:
                for z in (tzs[:2] if ctx.tier == "quick" else tzs[:3]):
                    if z is not None and not tm:
                        continue  # a zone can only accompany a time
                    t = {"time": tm, "day": dy, "tz": z}
                    ctx.state_count += 1
                    ctx.sample(lambda: {"mode": kind, "t": t, "p": ps[0]})
                    for pdesc in ps:
                        check_case(ctx, kind, c, t, pdesc, hang)
                    if kind == "greg" and (dy.get("week") == 53 or dy.get("doy") == 366) and z is None and not tm:
                        # longest legitimate walks: p just after the last 53-week year / leap day before a century gap
                        for pdesc in _gap_points(c):
                            check_case(ctx, kind, c, t, pdesc, hang)
    elif u == "noise":
        # a decimal-hour / decimal-minute p read in a zone of t that is not a quarter-hour away from p's own: the local
        # time t is matched against has gone through float arithmetic (59.99999999999 s); the match must still be the
        # earliest one, not a whole unit later
        ps = [{"rep": "cal", "f": [2020, 1, 1], "t": tt, "tz": [0, 0]} for tt in
              (["hf", 6, 0.5], ["hf", 12, 0.0], ["hf", 5, 0.75], ["hmf", 6, 29, 0.5], ["hmf", 0, 0, 0.5])]
        ps += [{"rep": "ord", "f": [100, 141], "t": ["hf", 3, 0.5], "tz": [-3, 0]}]
        for tm in ({"m": 40}, {"m": 50}, {"s": 0}, {"s": 30}, {"h": 6, "m": 29}, {"h": 6, "m": 40}, {"h": 7}, {"h": 12, "m": 20}):
            for z in ([0, 10], [0, 20], [0, -1], [5, 40]):
                t = {"time": tm, "day": {}, "tz": z}
                ctx.state_count += 1
                for pdesc in ps:
                    check_case(ctx, kind, c, t, pdesc, hang)
    elif u == "parsed":
        # the same shapes spelled as text and read by the truncated parser
        from metomi.isodatetime.parsers import TimePointParser
        parser = TimePointParser(allow_truncated=True, default_to_unknown_time_zone=True)
        ps = p_pool(kind, "small", ctx.tier)[:6]
        shapes = [{"time": tm, "day": {}, "tz": z} for tm in time_only_shapes("quick")[::7]
                  for z in (None, [1, 0], [0, 0], [-5, -30])]   # [0, 0] is spelled "Z": a known zone
        shapes += [{"time": tm, "day": dy, "tz": None} for dy in day_shapes("quick")[::5] for tm in DAY_TIME_SHAPES]
        for t in shapes:
            text = t_text(t)
            if text is None:
                continue
            try:
                tobj = parser.parse(text)
            except ValueError:
                ctx.count("parser_refused_truncated_text")
                continue
            ctx.state_count += 1
            for pdesc in ps:
                check_case(ctx, kind, c, dict(t, text=text), pdesc, hang, tobj=tobj)


def replay_case(case, ctx):
    kind = case["mode"]
    impl.set_mode(A.MODE_OF[kind])
    t = case["t"]
    tobj = None
    if "text" in t:
        from metomi.isodatetime.parsers import TimePointParser
        tobj = TimePointParser(allow_truncated=True, default_to_unknown_time_zone=True).parse(t["text"])
    check_case(ctx, kind, M.cal(kind), t, case["p"], _Hang(), tobj=tobj)


def vacuity(tier, counters, outcomes):
    if outcomes.get("days_ahead", 0) < 20:
        return "next matches never lay many different distances ahead"
    return None


def describe(tier):
    return {
        "rule": "per mode: every value of each time field alone (25 hours incl. 24, 60 minutes, 60 seconds) and 13 "
                "multi-field time shapes x 3 zone settings x small p pool; every day designator value (day-of-month "
                "1-31, day-of-year, weekday 1-7, week x weekday) x 5 time shapes x zone settings x full p pool "
                "(boundary days x matching/before/after times x 3 representations x offsets); shapes spelled as text "
                "through the truncated parser",
        "bounds": {"tick_budget_per_execution": TICK_BUDGET, "scan_days": SCAN_DAYS, "hang_expand": HANG_EXPAND},
        "alphabet_sizes": {"time_only_shapes": len(time_only_shapes(tier)), "day_shapes": len(day_shapes(tier)),
                           "day_time_shapes": len(DAY_TIME_SHAPES)},
        "exhaustive": True,
        "assumptions": ["whole-second full points only (as stated)",
                        "a designator that never occurs in the mode has no next match: only termination with a "
                        "ValueError-derived error is accepted"],
    }
