"""M's own model of the ISO 8601 text notation: forms as token lists, a renderer and a decoder.

A form is a list of tokens. The same token list yields (a) the text for a field assignment,
(b) the fields of a text, (c) the library's format string naming that form (the dump-format
notation is public API). Nothing here reads metomi.isodatetime.parser_spec.

Field assignment keys: year, month, day, doy, week, wday, yy (year of century, truncated forms),
zdec (year of decade), cc (century only, reduced form), h, m, s, frac (string of digits),
zsign ('+'/'-'), zh, zm.
"""

# token -> (library notation, kind)
DATE_TOKENS = {
    "sign": "+", "X": "X", "CC": "CC", "YY": "YY", "MM": "MM", "DD": "DD", "DDD": "DDD",
    "Www": "Www", "D": "D", "z": "z",
}
TIME_TOKENS = {"hh": "hh", "mm": "mm", "ss": "ss", "fh": "ii", "fm": "nn", "fs": "tt"}
ZONE_TOKENS = {"Z": "Z", "zsign": "+", "zhh": "hh", "zmm": "mm"}


def notation(tokens):
    """The library's format string for a token list."""
    out = []
    for t in tokens:
        if t in DATE_TOKENS:
            out.append(DATE_TOKENS[t])
        elif t in TIME_TOKENS:
            out.append(TIME_TOKENS[t])
        elif t in ZONE_TOKENS:
            out.append(ZONE_TOKENS[t])
        else:
            out.append(t[1:])  # literal, written as "'x"
    return "".join(out)


def lit(s):
    return "'" + s


def _year_parts(year, ned):
    a = abs(year)
    return a // 10000, (a % 10000) // 100, a % 100


def render(tokens, f, ned=0):
    out = []
    for t in tokens:
        if t[0] == "'":
            out.append(t[1:])
        elif t == "sign":
            out.append("-" if f["year"] < 0 else "+")
        elif t == "X":
            out.append("%0*d" % (ned, _year_parts(f["year"], ned)[0]))
        elif t == "CC":
            out.append("%02d" % (f["cc"] if "cc" in f else _year_parts(f["year"], ned)[1]))
        elif t == "YY":
            out.append("%02d" % (f["yy"] if "yy" in f else _year_parts(f["year"], ned)[2]))
        elif t == "z":
            out.append("%d" % f["zdec"])
        elif t == "MM":
            out.append("%02d" % f["month"])
        elif t == "DD":
            out.append("%02d" % f["day"])
        elif t == "DDD":
            out.append("%03d" % f["doy"])
        elif t == "Www":
            out.append("W%02d" % f["week"])
        elif t == "D":
            out.append("%d" % f["wday"])
        elif t == "hh":
            out.append("%02d" % f["h"])
        elif t == "mm":
            out.append("%02d" % f["m"])
        elif t == "ss":
            out.append("%02d" % f["s"])
        elif t in ("fh", "fm", "fs"):
            out.append(f["frac"])
        elif t == "Z":
            out.append("Z")
        elif t == "zsign":
            out.append(f["zsign"])
        elif t == "zhh":
            out.append("%02d" % f["zh"])
        elif t == "zmm":
            out.append("%02d" % f["zm"])
        else:
            raise ValueError(t)
    return "".join(out)


class DecodeError(Exception):
    pass


def decode(tokens, text, ned=0):
    """Fields of text under the form tokens; raises DecodeError if text is not of that form."""
    i = 0
    f = {}

    def digits(n):
        nonlocal i
        s = text[i:i + n]
        if len(s) != n or not s.isdigit() or not s.isascii():
            raise DecodeError("expected %d digits at %d in %r" % (n, i, text))
        i += n
        return int(s)

    x = cc = yy = None
    for t in tokens:
        if t[0] == "'":
            if not text.startswith(t[1:], i):
                raise DecodeError("expected %r at %d in %r" % (t[1:], i, text))
            i += len(t) - 1
        elif t == "sign":
            if text[i:i + 1] not in ("+", "-"):
                raise DecodeError("expected sign at %d in %r" % (i, text))
            f["ysign"] = text[i]
            i += 1
        elif t == "X":
            x = digits(ned)
        elif t == "CC":
            cc = digits(2)
        elif t == "YY":
            yy = digits(2)
        elif t == "z":
            f["zdec"] = digits(1)
        elif t == "MM":
            f["month"] = digits(2)
        elif t == "DD":
            f["day"] = digits(2)
        elif t == "DDD":
            f["doy"] = digits(3)
        elif t == "Www":
            if text[i:i + 1] != "W":
                raise DecodeError("expected W at %d in %r" % (i, text))
            i += 1
            f["week"] = digits(2)
        elif t == "D":
            f["wday"] = digits(1)
        elif t == "hh":
            f["h"] = digits(2)
        elif t == "mm":
            f["m"] = digits(2)
        elif t == "ss":
            f["s"] = digits(2)
        elif t in ("fh", "fm", "fs"):
            j = i
            while j < len(text) and text[j].isdigit() and text[j].isascii():
                j += 1
            if j == i:
                raise DecodeError("expected fraction digits at %d in %r" % (i, text))
            f["frac"] = text[i:j]
            f["frac_of"] = t
            i = j
        elif t == "Z":
            if text[i:i + 1] != "Z":
                raise DecodeError("expected Z at %d in %r" % (i, text))
            i += 1
            f["zsign"], f["zh"], f["zm"] = "+", 0, 0
        elif t == "zsign":
            if text[i:i + 1] not in ("+", "-"):
                raise DecodeError("expected zone sign at %d in %r" % (i, text))
            f["zsign"] = text[i]
            i += 1
        elif t == "zhh":
            f["zh"] = digits(2)
            f.setdefault("zm", 0)
        elif t == "zmm":
            f["zm"] = digits(2)
        else:
            raise ValueError(t)
    if i != len(text):
        raise DecodeError("trailing text %r" % text[i:])
    if cc is not None and yy is not None:
        y = (x or 0) * 10000 + cc * 100 + yy
        f["year"] = -y if f.get("ysign") == "-" else y
    elif cc is not None:
        f["cc"] = cc
        if x is not None:
            y = x * 10000 + cc * 100
            f["year_century_start"] = -y if f.get("ysign") == "-" else y
    elif yy is not None:
        f["yy"] = yy
    return f


# ------------------------------------------------------------------------------------------------
# the documented forms (from the README / ISO 8601:2004 as the library documents them)
# ------------------------------------------------------------------------------------------------
_D = lit("-")
_C = lit(":")


def _year(expanded):
    return ["sign", "X", "CC", "YY"] if expanded else ["CC", "YY"]


def date_forms():
    """name -> (tokens, notation kind 'basic'|'extended'|'both', class 'complete'|'reduced', rep)"""
    forms = {}
    for e in (False, True):
        p = "x" if e else ""
        y = _year(e)
        forms[p + "cal_basic"] = (y + ["MM", "DD"], "basic", "complete", "cal")
        forms[p + "ord_basic"] = (y + ["DDD"], "basic", "complete", "ord")
        forms[p + "week_basic"] = (y + ["Www", "D"], "basic", "complete", "week")
        forms[p + "cal_ext"] = (y + [_D, "MM", _D, "DD"], "extended", "complete", "cal")
        forms[p + "ord_ext"] = (y + [_D, "DDD"], "extended", "complete", "ord")
        forms[p + "week_ext"] = (y + [_D, "Www", _D, "D"], "extended", "complete", "week")
        # reduced precision
        forms[p + "month"] = (y + [_D, "MM"], "both", "reduced", "cal")
        forms[p + "year"] = (y, "basic", "reduced", "cal")
        forms[p + "century"] = ((["sign", "X", "CC"] if e else ["CC"]), "basic", "reduced", "cal")
        forms[p + "yweek_basic"] = (y + ["Www"], "basic", "reduced", "week")
        forms[p + "yweek_ext"] = (y + [_D, "Www"], "extended", "reduced", "week")
    return forms


def time_forms():
    """name -> (tokens, 'basic'|'extended'|'both', precision class)"""
    forms = {}
    for sep, sn in ((",", "c"), (".", "p")):
        s = lit(sep)
        forms["hhmmss_f" + sn + "_basic"] = (["hh", "mm", "ss", s, "fs"], "basic", "fs")
        forms["hhmm_f" + sn + "_basic"] = (["hh", "mm", s, "fm"], "basic", "fm")
        forms["hh_f" + sn] = (["hh", s, "fh"], "both", "fh")
        forms["hhmmss_f" + sn + "_ext"] = (["hh", _C, "mm", _C, "ss", s, "fs"], "extended", "fs")
        forms["hhmm_f" + sn + "_ext"] = (["hh", _C, "mm", s, "fm"], "extended", "fm")
    forms["hhmmss_basic"] = (["hh", "mm", "ss"], "basic", "s")
    forms["hhmm_basic"] = (["hh", "mm"], "basic", "m")
    forms["hh"] = (["hh"], "both", "h")
    forms["hhmmss_ext"] = (["hh", _C, "mm", _C, "ss"], "extended", "s")
    forms["hhmm_ext"] = (["hh", _C, "mm"], "extended", "m")
    return forms


def zone_forms():
    """name -> (tokens, 'basic'|'extended'|'both')"""
    return {
        "Z": (["Z"], "both"),
        "hh": (["zsign", "zhh"], "both"),
        "hhmm": (["zsign", "zhh", "zmm"], "basic"),
        "hh:mm": (["zsign", "zhh", _C, "zmm"], "extended"),
    }


def compatible(*kinds):
    """basic/extended notations may not be mixed; 'both' goes with either."""
    ks = set(k for k in kinds if k != "both")
    return len(ks) <= 1


# ------------------------------------------------------------------------------------------------
# truncated forms (ISO 8601:2000 section 5.2.1.3 / 5.2.2.3 / 5.2.3.3 / 5.3.1.4 as the library documents them)
# name -> (tokens, notation kind, truncated properties spelled)
# ------------------------------------------------------------------------------------------------
def truncated_date_forms():
    D2, D3 = lit("--"), lit("---")
    W = lit("W")
    return {
        "b_-YYMM": ([_D, "YY", "MM"], "basic", ("yoc", "month")),
        "b_-YY": ([_D, "YY"], "basic", ("yoc",)),
        "b_--MMDD": ([D2, "MM", "DD"], "basic", ("month", "day")),
        "b_--MM": ([D2, "MM"], "basic", ("month",)),
        "b_---DD": ([D3, "DD"], "basic", ("day",)),
        "b_YYMMDD": (["YY", "MM", "DD"], "basic", ("yoc", "month", "day")),
        "b_YYDDD": (["YY", "DDD"], "basic", ("yoc", "doy")),
        "b_-DDD": ([_D, "DDD"], "both", ("doy",)),
        "b_YYWwwD": (["YY", "Www", "D"], "basic", ("yoc", "week", "wday")),
        "b_YYWww": (["YY", "Www"], "basic", ("yoc", "week")),
        "b_-zWwwD": ([_D, "z", "Www", "D"], "basic", ("zdec", "week", "wday")),
        "b_-zWww": ([_D, "z", "Www"], "basic", ("zdec", "week")),
        "b_-WwwD": ([_D, "Www", "D"], "basic", ("week", "wday")),
        "b_-Www": ([_D, "Www"], "basic", ("week",)),
        "b_-W-D": ([_D, W, _D, "D"], "basic", ("wday",)),
        "e_-YY-MM": ([_D, "YY", _D, "MM"], "extended", ("yoc", "month")),
        "e_--MM-DD": ([D2, "MM", _D, "DD"], "extended", ("month", "day")),
        "e_YY-MM-DD": (["YY", _D, "MM", _D, "DD"], "extended", ("yoc", "month", "day")),
        "e_YY-DDD": (["YY", _D, "DDD"], "extended", ("yoc", "doy")),
        "e_YY-Www-D": (["YY", _D, "Www", _D, "D"], "extended", ("yoc", "week", "wday")),
        "e_YY-Www": (["YY", _D, "Www"], "extended", ("yoc", "week")),
        "e_-z-WwwD": ([_D, "z", _D, "Www", "D"], "extended", ("zdec", "week", "wday")),
        "e_-z-Www": ([_D, "z", _D, "Www"], "extended", ("zdec", "week")),
        "e_-Www-D": ([_D, "Www", _D, "D"], "extended", ("week", "wday")),
    }


def truncated_time_forms():
    """name -> (tokens, kind, fields spelled, fraction token or None)"""
    forms = {
        "b_-mmss": ([_D, "mm", "ss"], "basic", ("m", "s"), None),
        "x_-mm": ([_D, "mm"], "both", ("m",), None),
        "x_--ss": ([lit("--"), "ss"], "both", ("s",), None),
        "e_-mm:ss": ([_D, "mm", _C, "ss"], "extended", ("m", "s"), None),
    }
    for sep, sn in ((",", "c"), (".", "p")):
        s = lit(sep)
        forms["b_-mmss_f" + sn] = ([_D, "mm", "ss", s, "fs"], "basic", ("m", "s"), "fs")
        forms["x_-mm_f" + sn] = ([_D, "mm", s, "fm"], "both", ("m",), "fm")
        forms["x_--ss_f" + sn] = ([lit("--"), "ss", s, "fs"], "both", ("s",), "fs")
        forms["e_-mm:ss_f" + sn] = ([_D, "mm", _C, "ss", s, "fs"], "extended", ("m", "s"), "fs")
    return forms
