"""Point pools under the deviation-bounded configuration rule (DESIGN 2.4).

Default configuration: Gregorian mode, calendar-date representation, whole-second hh:mm:ss form,
offset Z. A deviation is one departure from it. configs(k) enumerates every configuration with
<= k deviations; each configuration comes with the (years, days) policy used for it.
"""
from isomc import alphabets as A, refmodel as M

T_WHOLE = [["hms", h, m, s] for (h, m, s) in A.TIMES_WHOLE]
T_24 = [["hms", 24, 0, 0]]
T_DYADIC = [["hf", 6, 0.25], ["hf", 23, 0.5], ["hmf", 12, 30, 0.5], ["hmsf", 5, 59, 59, 0.5],
            ["hmsf", 0, 0, 0, 0.25]]
T_GENERAL = [["hf", 6, 0.1], ["hmf", 12, 30, 0.3], ["hmsf", 23, 59, 59, 0.123456],
             ["hmsf", 23, 59, 59, 0.999999]]
T_DEV = T_24 + T_DYADIC + T_GENERAL

Z0 = [[0, 0]]
Z_DEV = [list(z) for z in A.Z_S if z != (0, 0)]

REPS = ["cal", "ord", "week"]
KIND_DEV = ["360", "365", "366"]


def time_class(t):
    if t[0] == "hms":
        return "whole"
    if t in T_DYADIC:
        return "dyadic"
    return "general"


def days_small(c, y):
    """D_bb(y): 1 Jan, 28 Feb, the day after it, 1 Mar, 31 Jul, 30 Dec, 31 Dec (day-of-year numbers)."""
    n = c.year_len(y)
    cum = c.cum(y)
    s = {1, 2, cum[1] + 28, cum[1] + 29, cum[2] + 1, cum[7], n - 1, n}
    return sorted(x for x in s if 1 <= x <= n)


def days_yearedge(c, y):
    """First 5 and last 5 days of the year: every day on which the ISO week-year can differ from the calendar year
    (W01 starts between 4 Jan - 6 days and 4 Jan) plus one neighbour on each side, in every calendar."""
    n = c.year_len(y)
    return [1, 2, 3, 4, 5, n - 4, n - 3, n - 2, n - 1, n]


Y_WEEKCYCLE_Q = list(range(2019, 2033))      # every weekday of 1 January, common and leap years among them
Y_WEEKCYCLE = list(range(2000, 2028))        # all 14 Gregorian year types (28-year cycle)
T_EDGE = [["hms", 0, 30, 0], ["hms", 23, 30, 0]]
Z_EDGE = [[0, 0], [1, 0], [-1, 0]]


def configs(k):
    """Yield (kind, rep, times, zones, ndev, years, daypolicy).

    times/zones are lists (the whole default set counts as 0 deviations; each non-default
    element is 1 deviation). years/daypolicy implement the table in DESIGN 5/C01."""
    kinds = [("greg", 0)] + [(x, 1) for x in KIND_DEV]
    reps = [("cal", 0), ("ord", 1), ("week", 1)]
    tsets = [(T_WHOLE, 0), (T_DEV, 1)]
    zsets = [(Z0, 0), (Z_DEV, 1)]
    for kind, dk in kinds:
        for rep, dr in reps:
            for ts, dt in tsets:
                for zs, dz in zsets:
                    nd = dk + dr + dt + dz
                    if nd > k:
                        continue
                    if nd == 0 or (nd == 1 and dr):
                        years, days = A.Y_B, "boundary"
                    elif nd == 1:
                        years, days = A.Y_S, "boundary"
                    elif nd == 2 and dk and dr:
                        years, days = A.Y_S, "boundary"
                    elif nd == 2:
                        years, days = A.Y_S, "small"
                    else:
                        years, days = A.Y_S, "small"
                    yield kind, rep, ts, zs, nd, years, days


def point_descs(kind, rep, times, zones, years, daypolicy):
    """All point descriptors of one configuration, in fixed order."""
    c = M.cal(kind)
    for y in years:
        doys = A.days_boundary(c, y) if daypolicy == "boundary" else (
            days_small(c, y) if daypolicy == "small" else days_yearedge(c, y) if daypolicy == "yearedge" else
            range(1, c.year_len(y) + 1))
        for doy in doys:
            dn = c.dn_from_ord(y, doy)
            f = list(c.from_dn(rep, dn))
            ned = 0 if 0 <= f[0] <= 9999 else 2
            for t in times:
                for z in zones:
                    d = {"rep": rep, "f": f, "t": t, "tz": z}
                    if ned:
                        d["ned"] = ned
                    yield d


# ------------------------------------------------------------------------------------------------
# exact durations
# ------------------------------------------------------------------------------------------------
def _pm(unit, vals):
    out = []
    for v in vals:
        out.append({unit: v})
        out.append({unit: -v})
    return out


D_ZERO = [{}, {"days": 0}, {"days": 1, "hours": -24}]
D_MIXED = [{"days": 2, "hours": 5, "minutes": 7, "seconds": 11}, {"days": 1, "hours": -30},
           {"days": -1, "hours": 23, "minutes": 59, "seconds": 60}, {"hours": -1, "minutes": 61, "seconds": -61}]
D_FRAC_DYADIC = [{"seconds": 0.5}, {"hours": 0.25}, {"minutes": 1.5}, {"seconds": -0.5}]
D_FRAC_GENERAL = [{"seconds": 0.1}, {"minutes": -0.3}, {"seconds": 0.9999997}, {"seconds": -0.0000003},
                  {"seconds": 59.9999996}, {"minutes": 0.99999999}]
D_NEAR = (_pm("seconds", [1, 59, 60, 61, 3599, 86399, 86400]) +
          _pm("minutes", [1, 59, 60, 1439, 1441]) +
          _pm("hours", [1, 23, 24, 25, 49, 1000]) + _pm("seconds", [100000]) + _pm("minutes", [10000]) +
          _pm("days", [1, 27, 28, 29, 30, 31, 59, 60, 365, 366, 367, 730, 731, 1461]) +
          _pm("weeks", [1, 52, 53]) + D_MIXED + D_FRAC_DYADIC + D_FRAC_GENERAL + D_ZERO)
D_CORE = (_pm("seconds", [1, 61, 86400]) + _pm("minutes", [1, 1441]) + _pm("hours", [1, 25]) +
          _pm("days", [1, 31, 366]) + _pm("weeks", [1, 53]) + D_MIXED[:2] + D_FRAC_DYADIC[:2] +
          D_FRAC_GENERAL[:1] + D_FRAC_GENERAL[2:4] + D_ZERO[:1] + D_ZERO[2:])
D_FAR = _pm("days", [36524, 36525, 146097])


def duration_class(d):
    vals = [v for v in d.values()]
    if all(float(v) == int(v) for v in vals):
        return "int"
    if d in D_FRAC_DYADIC:
        return "dyadic"
    return "general"


def subday_multiple_of_900(d):
    from fractions import Fraction
    for u, k in (("hours", 3600), ("minutes", 60), ("seconds", 1)):
        if (Fraction(d.get(u, 0)) * k) % 900 != 0:
            return False
    return True


def exact_domain(t, d):
    """True when every mathematically exact intermediate value of p + d is a representable binary
    fraction, so any correct float implementation must be exact (DESIGN 4, float policy)."""
    tc, dc = time_class(t), duration_class(d)
    if tc == "general" or dc == "general":
        return False
    if t[0] in ("hf", "hmf"):
        return subday_multiple_of_900(d)
    return True
