"""C11 - duration arithmetic, equality, ordering and hashing are coherent.

States: a pool of Durations proper (unit form and week form, mixed signs). Transitions: +, -, n*d,
==, !=, hash, <, <=, >, >= on all ordered pairs; associativity on all triples of a sub-pool.
Oracle: M's triple (years, months, exact seconds) and the rough total for ordering.
"""
import itertools
from fractions import Fraction

from isomc import impl, alphabets as A, refmodel as M

ID = "C11"
TITLE = "Duration arithmetic, equality, ordering and hashing are coherent"
TOL = Fraction(1, 1000000)
MULT = [-3, -2, -1, 0, 1, 2, 3]


def pool_descs():
    out = []
    for y in (-1, 0, 1):
        for mo in (-1, 0, 13):
            for d in (-7, 0, 1, 7):
                for h in (-24, 0, 1, 36):
                    for mi in (0, -60, 90):
                        for s in (0, -1, 3600):
                            out.append({"years": y, "months": mo, "days": d, "hours": h, "minutes": mi, "seconds": s})
    for w in (-2, -1, 1, 2, 52):
        out.append({"weeks": w})
    out.append({})
    # long exact durations that differ by a second or a day (total length alone decides equality)
    out += [{"days": 20000}, {"days": 20000, "seconds": 1}, {"weeks": 3000}, {"days": 21000, "seconds": 1},
            {"days": 21000}, {"hours": 480000}, {"seconds": 1728000000}, {"seconds": 1728000001},
            {"years": 50, "days": 20000}, {"years": 50, "days": 20000, "seconds": 1}]
    return out


DECIMALS = [{"hours": 0.5}, {"minutes": 1.5}, {"seconds": 0.1}, {"hours": 0.1}, {"days": 1, "seconds": 0.25},
            {"minutes": -0.3}, {"seconds": 86399.9}, {"hours": 24.0}, {"years": 1, "hours": 0.5}, {"weeks": 1},
            {"days": 7}, {"hours": 168}, {"seconds": 604800.0}, {},
            {"hours": 1.1}, {"minutes": 66}, {"hours": 2.2}, {"minutes": 132}, {"hours": 0.07}, {"seconds": 252},
            {"minutes": 2.05}, {"seconds": 123}, {"seconds": 1}, {"seconds": 1.0000004}, {"seconds": 0.9999996}]


def model(desc):
    return (desc.get("years", 0), desc.get("months", 0), impl.duration_len(desc))


def rough_total(kind, tr):
    c = M.cal(kind)
    return (tr[0] * c.len_common + tr[1] * 30) * 86400 + tr[2]


def units(tier):
    n = len(pool_descs())
    us = []
    kinds = ["greg"] if tier == "quick" else list(A.KINDS)
    step = 12 if tier == "quick" else 24
    for kind in kinds:
        for i in range(0, n, step):
            us.append(("pairs", kind, i, min(i + step, n)))
    for kind in A.KINDS:
        us.append(("order_modes", kind))
        us.append(("decimal", kind))
        us.append(("triples", kind))
    return us


def _alpha3(d):
    y, m, s, _ = impl.alpha_duration(d)
    return (y, m, s)


def check_pair(ctx, kind, a, ma, da, b, mb, db, arith=True, tol=False):
    case = lambda: {"kind": "pair", "mode": kind, "a": da, "b": db}  # noqa: E731
    sig = {"week_form": ("weeks" in da) or ("weeks" in db)}
    ctx.transitions += 9
    try:
        if arith:
            s = a + b
            want = (ma[0] + mb[0], ma[1] + mb[1], ma[2] + mb[2])
            got = _alpha3(s)
            if got != want and not (tol and got[:2] == want[:2] and abs(got[2] - want[2]) <= TOL):
                ctx.violation("addition", sig, case, [want[0], want[1], str(want[2])], {"sum": str(s), "triple": str(got)})
            t = b + a
            if not (s == t) or (not tol and _alpha3(t) != got):
                ctx.violation("commutative", sig, case, str(s), str(t))
            df = a - b
            dn = a + (-1 * b)
            wantd = (ma[0] - mb[0], ma[1] - mb[1], ma[2] - mb[2])
            gd = _alpha3(df)
            if (gd != wantd and not (tol and gd[:2] == wantd[:2] and abs(gd[2] - wantd[2]) <= TOL)) or not (df == dn):
                ctx.violation("subtraction", sig, case, [wantd[0], wantd[1], str(wantd[2])], {"diff": str(df), "a+(-b)": str(dn)})
        eq, ne = (a == b), (a != b)
        lt, le, gt, ge = (a < b), (a <= b), (a > b), (a >= b)
        ha, hb = hash(a), hash(b)
    except Exception as ex:
        ctx.violation("total", dict(sig, exc=type(ex).__name__), case, "operators work on Durations",
                      "raised %s: %s" % (type(ex).__name__, ex))
        return
    ctx.traces += 1
    want_eq = ma == mb
    if tol and not want_eq and ma[:2] == mb[:2] and abs(ma[2] - mb[2]) <= TOL:
        want_eq = None
    if want_eq is not None and (eq is not want_eq or ne is want_eq):
        ctx.violation("equality", dict(sig, want=want_eq), case, {"equal": want_eq, "triples": [str(ma), str(mb)]},
                      {"eq": eq, "ne": ne})
    if ne == eq:
        ctx.violation("operator_algebra", sig, case, "!= is not ==", {"eq": eq, "ne": ne})
    if eq and ha != hb:
        ctx.violation("hash_of_equal", sig, case, "equal durations hash equally", [ha, hb])
    ta, tb = rough_total(kind, ma), rough_total(kind, mb)
    if not tol or abs(ta - tb) > TOL:
        want_o = (ta < tb, ta <= tb, ta > tb, ta >= tb)
        if (lt, le, gt, ge) != want_o:
            ctx.violation("ordering", sig, case, dict(zip(("lt", "le", "gt", "ge"), want_o)),
                          dict(zip(("lt", "le", "gt", "ge"), (lt, le, gt, ge))))
    # mutual consistency of the four order operators, always
    if le != (not gt) or ge != (not lt) or (lt and gt):
        ctx.violation("operator_algebra", sig, case, "<= is not >, >= is not <", {"lt": lt, "le": le, "gt": gt, "ge": ge})
    # exact durations are equal and ordered by one quantity, their total length: == and < / > must not contradict each
    # other, whatever the float noise (always judged)
    if ma[:2] == (0, 0) and mb[:2] == (0, 0) and ((eq and (lt or gt)) or (not eq and not lt and not gt)):
        ctx.violation("order_contradicts_equality", sig, case, "exactly one of a < b, a == b, a > b",
                      {"eq": eq, "lt": lt, "gt": gt})
    ctx.outcome("eq", eq)


def check_unary(ctx, kind, d, md, dd):
    case = lambda: {"kind": "unary", "mode": kind, "a": dd}  # noqa: E731
    sig = {"week_form": "weeks" in dd}
    try:
        zero = d + (-1 * d)
        ctx.transitions += 2
        if zero or _alpha3(zero) != (0, 0, 0) or not (zero == impl.Duration()):
            ctx.violation("inverse", sig, case, "d + (-1 * d) is empty", str(zero))
        ident = d + impl.Duration()
        if not (ident == d) or _alpha3(ident) != md:
            ctx.violation("identity", sig, case, str(d), str(ident))
        for n in MULT:
            ctx.transitions += 2
            p = n * d
            p2 = d * n
            want = (n * md[0], n * md[1], n * md[2])
            if _alpha3(p) != want or _alpha3(p2) != want:
                ctx.violation("multiple", dict(sig, n=n), case, [want[0], want[1], str(want[2])], str(p))
            if n >= 0:
                acc = impl.Duration()
                for _ in range(n):
                    acc = acc + d
                if not (acc == p) or _alpha3(acc) != want:
                    ctx.violation("multiple_is_repeated_addition", dict(sig, n=n), case, str(p), str(acc))
        # units: exact durations are determined by total length
        if md[0] == 0 and md[1] == 0:
            ctx.transitions += 3
            if Fraction(d.get_seconds()) != md[2]:
                ctx.violation("get_seconds", sig, case, str(md[2]), d.get_seconds())
            dys, secs = d.get_days_and_seconds()
            if Fraction(dys) * 86400 + Fraction(secs) != md[2] or not (0 <= secs < 86400):
                ctx.violation("get_days_and_seconds", sig, case, str(md[2]), [dys, secs])
            td = d.to_days()
            if _alpha3(td) != md or td.get_is_in_weeks() or not (td == d) or hash(td) != hash(d):
                ctx.violation("to_days", sig, case, str(d), str(td))
        # the standardize=True spelling of the same components (carries seconds -> minutes -> hours -> days) is the
        # same duration: same years, months and total exact length; equal; same hash
        if "weeks" not in dd or len([v for v in dd.values() if v]) > 1:
            ctx.transitions += 1
            std = impl.Duration(standardize=True, **dd)
            if _alpha3(std) != md or not (std == d) or not (d == std) or hash(std) != hash(d) or (std < d) or (std > d):
                ctx.violation("standardize_same_value", sig, case, str(d), str(std))
            ctx.outcome("standardize_carries", (std.days != d.days, std.hours != d.hours, std.minutes != d.minutes))
    except Exception as ex:
        ctx.violation("total", dict(sig, exc=type(ex).__name__), case, "unary operations work",
                      "raised %s: %s" % (type(ex).__name__, ex))


def run_unit(unit, ctx):
    u, kind = unit[0], unit[1]
    impl.set_mode(A.MODE_OF[kind])
    descs = pool_descs()
    if u == "pairs":
        objs = [impl.build_duration(d) for d in descs]
        ms = [model(d) for d in descs]
        for i in range(unit[2], unit[3]):
            ctx.state_count += 1
            ctx.sample(lambda: {"mode": kind, "a": descs[i], "b": descs[(i * 7 + 3) % len(descs)]})
            check_unary(ctx, kind, objs[i], ms[i], descs[i])
            for j in range(len(descs)):
                check_pair(ctx, kind, objs[i], ms[i], descs[i], objs[j], ms[j], descs[j])
    elif u == "order_modes":
        # ordering depends on the mode's common-year length: nominal durations against day counts around it
        ds = [{"years": y, "months": mo, "days": d} for y in (-1, 0, 1, 2) for mo in (0, 1, 12) for d in (0, 1, 5, 6, -1)]
        ds += [{"days": d} for d in (359, 360, 361, 364, 365, 366, 367, 29, 30, 31, 719, 720, 730, 731, 732, 390, 395, 396)]
        ds += [{"weeks": 52}, {"weeks": 53}, {"hours": 8760}, {"hours": 8640}, {"hours": 8784}]
        # week form against nominal durations whose rough length is a whole number of weeks (never equal)
        ds += [{"weeks": 30}, {"months": 7}, {"weeks": 60}, {"months": 14}, {"weeks": 5}, {"months": 1, "days": 5},
               {"years": 1, "days": -1}, {"years": 1, "days": -5}, {"years": 1, "days": -2}, {"weeks": 365}, {"years": 7},
               {"weeks": 360}, {"weeks": 366}, {"days": 210}, {"months": 7, "days": -210}, {"weeks": 0}]
        objs = [impl.build_duration(d) for d in ds]
        ms = [model(d) for d in ds]
        for i in range(len(ds)):
            ctx.state_count += 1
            for j in range(len(ds)):
                check_pair(ctx, kind, objs[i], ms[i], ds[i], objs[j], ms[j], ds[j], arith=False)
    elif u == "decimal":
        objs = [impl.build_duration(d) for d in DECIMALS]
        ms = [model(d) for d in DECIMALS]
        for i in range(len(DECIMALS)):
            ctx.state_count += 1
            for j in range(len(DECIMALS)):
                check_pair(ctx, kind, objs[i], ms[i], DECIMALS[i], objs[j], ms[j], DECIMALS[j], tol=True)
        for i, dd in enumerate(DECIMALS):
            if "weeks" in dd:
                continue
            ctx.transitions += 1
            try:
                std = impl.Duration(standardize=True, **dd)
                y, mo, ln, _ = impl.alpha_duration(std)
                if (y, mo) != ms[i][:2] or abs(ln - ms[i][2]) > TOL:
                    ctx.violation("standardize_same_value", {"week_form": False, "decimal": True},
                                  {"kind": "standardize", "mode": kind, "a": dd}, str(objs[i]), str(std))
            except Exception as ex:
                ctx.violation("total", {"exc": type(ex).__name__}, {"kind": "standardize", "mode": kind, "a": dd},
                              "Duration(standardize=True) works", repr(ex))
        # one total length spelled with and without a carry into the next unit, every tenth and some hundredths
        ctx.transitions += 0
        for k in list(range(1, 10)) + [25, 33, 75, 99]:
            x = k / 10.0 if k < 10 else k / 100.0
            for da, db in (({"days": 1, "seconds": x}, {"seconds": 86400 + x}), ({"hours": 1, "seconds": x}, {"seconds": 3600 + x}),
                           ({"days": 1, "hours": x}, {"hours": 24 + x}), ({"minutes": 1, "seconds": x}, {"seconds": 60 + x}),
                           ({"days": 1, "hours": 4 + x}, {"days": 1, "minutes": 240, "seconds": x * 3600}),
                           ({"days": 1}, {"hours": 4 + x, "minutes": 1200 - 60 * x})):
                try:
                    a, b = impl.build_duration(da), impl.build_duration(db)
                    ctx.state_count += 1
                    check_pair(ctx, kind, a, model(da), da, b, model(db), db, arith=False, tol=True)
                    check_pair(ctx, kind, b, model(db), db, a, model(da), da, arith=False, tol=True)
                    derived = impl.build_duration({"days": 1, "hours": 4 + x}) - impl.build_duration({"minutes": 240 + 60 * x})
                    for dd, obj in ((da, a), (db, b), ({"days": 1, "hours": 4 + x, "minus_minutes": 240 + 60 * x}, derived)):
                        dys, secs = obj.get_days_and_seconds()
                        if not (0 <= secs < 86400):
                            ctx.violation("get_days_and_seconds", {"week_form": False, "decimal": True},
                                          {"kind": "decimal_unit", "mode": kind, "a": dd}, "0 <= seconds < 86400", [dys, secs])
                except Exception as ex:
                    ctx.violation("total", {"exc": type(ex).__name__}, {"kind": "pair", "mode": kind, "a": da, "b": db},
                                  "works", repr(ex))
    elif u == "triples":
        sub = descs[:: max(1, len(descs) // 56)][:56] + [{"weeks": 1}, {"weeks": -2}, {}]
        if ctx.tier == "quick":
            sub = sub[::2]
        objs = [impl.build_duration(d) for d in sub]
        for (i, a), (j, b), (k, cc) in itertools.product(enumerate(objs), repeat=3):
            ctx.transitions += 2
            try:
                l, r = (a + b) + cc, a + (b + cc)
                if not (l == r) or _alpha3(l) != _alpha3(r):
                    ctx.violation("associative", {"week_form": False},
                                  {"kind": "triple", "mode": kind, "a": sub[i], "b": sub[j], "c": sub[k]}, str(l), str(r))
            except Exception as ex:
                ctx.violation("total", {"exc": type(ex).__name__},
                              {"kind": "triple", "mode": kind, "a": sub[i], "b": sub[j], "c": sub[k]}, "works", repr(ex))
        ctx.state_count += len(sub)


def replay_case(case, ctx):
    kind = case["mode"]
    impl.set_mode(A.MODE_OF[kind])
    if case["kind"] in ("standardize", "decimal_unit"):
        run_unit(("decimal", kind), ctx)
    elif case["kind"] == "unary":
        check_unary(ctx, kind, impl.build_duration(case["a"]), model(case["a"]), case["a"])
    elif case["kind"] == "pair":
        a, b = case["a"], case["b"]
        tol = any(isinstance(v, float) and v != int(v) for v in list(a.values()) + list(b.values()))
        check_pair(ctx, kind, impl.build_duration(a), model(a), a, impl.build_duration(b), model(b), b, tol=tol)
    else:
        a, b, cc = (impl.build_duration(case[k]) for k in ("a", "b", "c"))
        l, r = (a + b) + cc, a + (b + cc)
        if not (l == r) or _alpha3(l) != _alpha3(r):
            ctx.violation("associative", {}, case, str(l), str(r))


def vacuity(tier, counters, outcomes):
    if outcomes.get("eq", 0) != 2:
        return "equality never had both answers"
    return None


def describe(tier):
    return {
        "rule": "pool = {years -1,0,1} x {months -1,0,13} x {days -7,0,1,7} x {hours -24,0,1,36} x {minutes 0,-60,90} x "
                "{seconds 0,-1,3600} + week forms + empty: all ordered pairs (+, -, ==, !=, hash, <, <=, >, >=), "
                "per-value laws (inverse, identity, n*d for n in -3..3, repeated addition, unit conversions); ordering "
                "pool around the mode's year/month lengths in all four modes; decimal pool within 1 us; all triples "
                "of a sub-pool for associativity",
        "bounds": {"pool": len(pool_descs()), "multipliers": MULT, "modes_pairs": ["greg"] if tier == "quick" else list(A.KINDS)},
        "alphabet_sizes": {"pool": len(pool_descs()), "decimals": len(DECIMALS)},
        "exhaustive": True,
        "assumptions": ["TimeZone (which deliberately hashes differently) is excluded, as stated"],
    }
