"""C02 - comparison and hashing of time points follow the timeline.

States: pools of points whose instants collide by construction (isomc/collide.py). Transitions:
the six operators on every ordered pair of a cluster (and on all cross-cluster pairs of
representatives), hash of every point, sign of a - b, sorted()/set(). Oracle: M's instants.
"""
from fractions import Fraction
import itertools

from isomc import impl, collide, alphabets as A, refmodel as M
from isomc.runner import HorizonExceeded

ID = "C02"
TITLE = "Comparison and hashing of time points follow the timeline"
TOL = Fraction(1, 1000000)
OPS = ("eq", "ne", "lt", "le", "gt", "ge")


def _kinds(tier):
    return ["greg", "360"] if tier == "quick" else list(A.KINDS)


def units(tier):
    us = []
    for kind in _kinds(tier):
        bases = collide.base_instants(kind, tier)
        for i in range(len(bases)):
            us.append(("cluster", kind, i))
        us.append(("general", kind))
        if kind == "greg":
            for part in range(3):
                us.append(("noise", kind, part))
        n = len(bases)
        for i in range(0, n, 4):
            us.append(("cross", kind, i, min(i + 4, n)))
    return us


class Pt:
    __slots__ = ("label", "obj", "inst", "exact", "h24", "hash", "hf", "off", "dec", "gen")


def pair_exact(x, y):
    """Both operands in the exact float domain, *and* re-zoning one into the other's offset is
    exact: a decimal-hour operand moves by (offset difference)/60 hours, exact iff a multiple of 15 min."""
    if not (x.exact and y.exact):
        return False
    if (x.hf or y.hf) and (x.off - y.off) % 15 != 0:
        return False
    return True


def build_pool(ctx, kind, entries):
    c = M.cal(kind)
    pool = []
    for desc, how, exact in entries:
        label = {"p": desc, "via": how}
        try:
            p = impl.build_point(desc)
            if how:
                p = collide.derive(impl, p, how)
        except Exception as e:
            ctx.violation("construct", {"exc": type(e).__name__, "via": how}, {"kind": "pair", "mode": kind,
                          "a": label, "b": label}, "valid operand", "raised %s: %s" % (type(e).__name__, e))
            continue
        r = impl.alpha_fast(p, c)
        if r[8] is not None:
            # a derived operand that is itself invalid is C01/C06's business; it cannot be judged here
            ctx.count("operands_skipped_invalid")
            continue
        x = Pt()
        x.label, x.obj, x.inst, x.exact = label, p, r[7], exact
        x.h24 = r[2] == 24
        x.hf = desc["t"][0] == "hf"
        x.dec = desc["t"][0] in ("hf", "hmf")
        # a second fraction that is not a binary fraction: exact for comparison/hash/re-zoning (the seconds field is
        # never touched), but not for the arithmetic of differences and sums (C04)
        x.gen = desc["t"][0] == "hmsf" and (float(desc["t"][4]) * 2 ** 30) % 1 != 0
        x.off = r[5]
        pool.append(x)
        ctx.state(impl.canon_point(p))
    return pool


def _six(a, b):
    return (a == b, a != b, a < b, a <= b, a > b, a >= b)


def check_pair(ctx, kind, x, y, want_sign=True):
    case = lambda: {"kind": "pair", "mode": kind, "a": x.label, "b": y.label}  # noqa: E731
    sig = {"h24": x.h24 or y.h24, "exact": pair_exact(x, y)}
    ctx.transitions += 6
    impl._H.ticks = 0
    try:
        r = _six(x.obj, y.obj)
    except HorizonExceeded as e:
        ctx.violation("terminates", sig, case, "comparison terminates", str(e))
        return None
    except Exception as e:
        ctx.violation("total", dict(sig, exc=type(e).__name__), case, "comparison returns a bool",
                      "raised %s: %s" % (type(e).__name__, e))
        return None
    ctx.traces += 1
    eq, ne, lt, le, gt, ge = r
    if any(type(v) is not bool for v in r):
        ctx.violation("total", dict(sig, exc="nonbool"), case, "bools", repr(r))
        return None
    # operator algebra, always
    if ne == eq or (lt + eq + gt) != 1 or le != (lt or eq) or ge != (gt or eq):
        ctx.violation("operator_algebra", sig, case, "exactly one of <,==,>; != is not ==; <=,>= unions",
                      dict(zip(OPS, r)))
    d = x.inst - y.inst
    exact = pair_exact(x, y)
    if exact or abs(d) > TOL:
        want = (d == 0, d != 0, d < 0, d <= 0, d > 0, d >= 0)
        if r != want:
            ctx.violation("order_by_instant", dict(sig, exact=exact, equal_instants=(d == 0)), case,
                          dict(zip(OPS, want), delta_s=str(d)), dict(zip(OPS, r)))
        if d == 0:
            ctx.counters["equal_instant_pairs"] = ctx.counters.get("equal_instant_pairs", 0) + 1
    else:
        ctx.counters["pairs_not_judged_float_noise"] = ctx.counters.get("pairs_not_judged_float_noise", 0) + 1
    if eq and x.hash != y.hash:
        ctx.violation("hash_of_equal", sig, case, "equal points hash equally", [x.hash, y.hash])
    return r


def check_pool(ctx, kind, pool, signs=True, triples=True):
    # hashes
    for x in pool:
        ctx.transitions += 1
        impl._H.ticks = 0
        try:
            x.hash = hash(x.obj)
        except Exception as e:
            x.hash = None
            ctx.violation("total", {"exc": type(e).__name__, "h24": x.h24},
                          {"kind": "pair", "mode": kind, "a": x.label, "b": x.label},
                          "hash returns", "raised %s: %s" % (type(e).__name__, e))
    n = len(pool)
    res = {}
    for i in range(n):
        x = pool[i]
        for j in range(n):
            res[(i, j)] = check_pair(ctx, kind, x, pool[j])
    # symmetry across the two orders
    for i in range(n):
        for j in range(i + 1, n):
            a, b = res[(i, j)], res[(j, i)]
            if a is None or b is None:
                continue
            x, y = pool[i], pool[j]
            d = x.inst - y.inst
            # (always judged: whatever the float noise, the two orders must not contradict each other)
            if True:
                if a[0] != b[0] or a[1] != b[1] or a[2] != b[4] or a[4] != b[2] or a[3] != b[5] or a[5] != b[3]:
                    ctx.violation("symmetry", {"h24": x.h24 or y.h24, "exact": bool(pair_exact(x, y) or abs(d) > TOL)},
                                  {"kind": "pair", "mode": kind, "a": x.label, "b": y.label},
                                  "a==b iff b==a; a<b iff b>a", {"a_op_b": dict(zip(OPS, a)), "b_op_a": dict(zip(OPS, b))})
            # hash agreement for model-equal instants in the exact domain
            if d == 0 and x.exact and y.exact and x.hash != y.hash:
                ctx.violation("hash_by_instant", {"h24": x.h24 or y.h24},
                              {"kind": "pair", "mode": kind, "a": x.label, "b": y.label},
                              "points at one instant hash equally", [x.hash, y.hash])
            if signs:
                ctx.transitions += 1
                impl._H.ticks = 0
                try:
                    dd = x.obj - y.obj
                    _, _, sec, _ = impl.alpha_duration(dd)
                    sgn = (sec > 0) - (sec < 0)
                    wsgn = (d > 0) - (d < 0)
                    if sgn != wsgn and (pair_exact(x, y) or abs(d) > TOL):
                        ctx.violation("sign_of_difference", {"h24": x.h24 or y.h24},
                                      {"kind": "pair", "mode": kind, "a": x.label, "b": y.label},
                                      {"sign": wsgn, "delta_s": str(d)}, {"sign": sgn, "a_minus_b": impl.sstr(dd)})
                except HorizonExceeded as e:
                    ctx.violation("terminates", {"h24": x.h24 or y.h24},
                                  {"kind": "pair", "mode": kind, "a": x.label, "b": y.label}, "a - b terminates", str(e))
                except Exception as e:
                    ctx.violation("total", {"exc": type(e).__name__, "h24": x.h24 or y.h24},
                                  {"kind": "pair", "mode": kind, "a": x.label, "b": y.label},
                                  "a - b returns a Duration", "raised %s: %s" % (type(e).__name__, e))
    # transitivity on all triples of a sub-pool, from the observed relation (no model involved)
    if triples:
        sub = list(range(0, n, max(1, n // 36)))[:36]
        for i, j, k in itertools.product(sub, repeat=3):
            a, b, cc = res[(i, j)], res[(j, k)], res[(i, k)]
            if a is None or b is None or cc is None:
                continue
            ctx.transitions += 1
            if (a[3] and b[3] and not cc[3]) or (a[0] and b[0] and not cc[0]) or (a[2] and b[3] and not cc[2]):
                xs = [pool[i], pool[j], pool[k]]
                if all(pair_exact(p, q) for p in xs for q in xs):
                    ctx.violation("transitivity", {"h24": any(p.h24 for p in xs)},
                                  {"kind": "triple", "mode": kind, "a": xs[0].label, "b": xs[1].label, "c": xs[2].label},
                                  "a<=b and b<=c imply a<=c (likewise ==, <)", "violated")
    # sorting, sets and dict keys behave by instant (exact sub-pool)
    ex = [p for p in pool if p.exact and not (p.hf and p.off % 15) and p.hash is not None]
    if any(p.hf for p in ex):
        ex = [p for p in ex if p.off % 15 == 0]
    if ex:
        ctx.transitions += 2
        try:
            srt = sorted(ex, key=lambda p: _Key(p.obj))
            if any(srt[i].inst > srt[i + 1].inst for i in range(len(srt) - 1)):
                ctx.violation("sorted_by_instant", {"h24": any(p.h24 for p in ex)},
                              {"kind": "pool", "mode": kind, "pool": [p.label for p in ex[:50]]},
                              "sorted() orders by instant", "out of order")
            nset = len(set(p.obj for p in ex))
            ninst = len(set(p.inst for p in ex))
            if nset != ninst:
                ctx.violation("set_by_instant", {"h24": any(p.h24 for p in ex)},
                              {"kind": "pool", "mode": kind, "pool": [p.label for p in ex[:50]]},
                              {"distinct_instants": ninst}, {"len_set": nset})
        except Exception as e:
            ctx.violation("total", {"exc": type(e).__name__}, {"kind": "pool", "mode": kind,
                          "pool": [p.label for p in ex[:50]]}, "sorted/set work", repr(e))
    ctx.outcome("pool_size", n)


class _Key:
    """sorted() through the library's own __lt__ only."""
    __slots__ = ("p",)

    def __init__(self, p):
        self.p = p

    def __lt__(self, other):
        impl._H.ticks = 0
        return self.p < other.p


def run_unit(unit, ctx):
    u, kind = unit[0], unit[1]
    impl.set_mode(A.MODE_OF[kind])
    tier = ctx.tier
    if u == "cluster":
        base = collide.base_instants(kind, tier)[unit[2]]
        pool = build_pool(ctx, kind, collide.cluster(kind, base, tier))
        ctx.sample(lambda: {"mode": kind, "base_instant": base, "pool_size": len(pool),
                            "a": pool[0].label, "b": pool[-1].label})
        check_pool(ctx, kind, pool)
    elif u == "general":
        pool = build_pool(ctx, kind, collide.general_cluster(kind))
        check_pool(ctx, kind, pool, triples=False)
    elif u == "noise":
        # two spellings of one instant with non-binary decimals: whatever the float noise, the answers must not
        # contradict each other (a > b and b > a; a == b but not b == a), every operator and a - b must return,
        # and equal operands must hash alike
        for xd, yd in collide.noise_pairs(unit[2]):
            pool = build_pool(ctx, kind, [(xd, None, False), (yd, None, False)])
            if len(pool) != 2:
                continue
            x, y = pool
            if abs(x.inst - y.inst) > Fraction(1, 10 ** 9):   # (the stored floats h + 0.cc differ in the last bit)
                raise RuntimeError("noise pair not at one instant: %r %r" % (xd, yd))
            x.hash, y.hash = hash(x.obj), hash(y.obj)
            a, b = check_pair(ctx, kind, x, y), check_pair(ctx, kind, y, x)
            case = {"kind": "pair", "mode": kind, "a": x.label, "b": y.label}
            if a is not None and b is not None:
                ctx.outcome("noise_pair_answer", (a[0], a[2], a[4], b[0], b[2], b[4]))
                if (a[4] and b[4]) or (a[2] and b[2]) or a[0] != b[0]:
                    ctx.violation("order_contradiction", {"exact": False, "h24": False}, case,
                                  "never a > b and b > a (or a < b and b < a); a == b iff b == a",
                                  {"a_op_b": dict(zip(OPS, a)), "b_op_a": dict(zip(OPS, b))})
            for p, q in ((x, y), (y, x)):
                ctx.transitions += 1
                impl._H.ticks = 0
                try:
                    dd = p.obj - q.obj
                    _, _, sec, _ = impl.alpha_duration(dd)
                    if abs(sec) > TOL:
                        ctx.violation("sign_of_difference", {"h24": False, "noise": True}, case, {"delta_s": "0"},
                                      {"a_minus_b": impl.sstr(dd)})
                except HorizonExceeded as e:
                    ctx.violation("terminates", {"h24": False}, case, "a - b terminates", str(e))
                except BaseException as e:
                    if isinstance(e, (KeyboardInterrupt, SystemExit)):
                        raise
                    ctx.violation("total", {"exc": type(e).__name__, "h24": False}, case, "a - b returns a Duration",
                                  "raised %s" % type(e).__name__)
    elif u == "cross":
        bases = collide.base_instants(kind, tier)
        reps_all = []
        for b in bases:
            ents = collide.cluster(kind, b, tier)
            pick = [e for e in ents if e[1] is None][:: max(1, len(ents) // 5)][:5]
            reps_all.append(build_pool(ctx, kind, pick))
        for x in itertools.chain.from_iterable(reps_all):
            x.hash = hash(x.obj)
        for i in range(unit[2], unit[3]):
            for j in range(len(bases)):
                if i == j:
                    continue
                for x in reps_all[i]:
                    for y in reps_all[j]:
                        check_pair(ctx, kind, x, y)


def replay_case(case, ctx):
    kind = case["mode"]
    impl.set_mode(A.MODE_OF[kind])
    if case["kind"] == "pool":
        ents = [(lb["p"], lb["via"], True) for lb in case["pool"]]
        check_pool(ctx, kind, build_pool(ctx, kind, ents))
        return
    labels = [case["a"], case["b"]] + ([case["c"]] if "c" in case else [])
    ents = []
    for lb in labels:
        ents.append((lb["p"], lb["via"], True))
    pool = build_pool(ctx, kind, ents)
    # exactness as the generator classified it does not matter for a replay of a recorded violation:
    # re-derive it conservatively from the forms
    for p, lb in zip(pool, labels):
        t = lb["p"]["t"]
        off = lb["p"]["tz"][0] * 60 + lb["p"]["tz"][1]
        p.exact = t[0] == "hms" or (off % 15 == 0 and (
            (t[0] == "hf" and (t[2] * 4) == int(t[2] * 4)) or (t[0] == "hmf" and (t[3] * 2) == int(t[3] * 2))))
    check_pool(ctx, kind, pool)


def vacuity(tier, counters, outcomes):
    if counters.get("equal_instant_pairs", 0) < 1000:
        return "fewer than 1000 ordered pairs with equal instants"
    return None


def describe(tier):
    return {
        "rule": "per mode, per base instant (cluster years x 6 boundary civil times): the five instants "
                "{-1d,-1s,0,+1s,+1d} spelled in 3 representations x 7-9 offsets x every form that can denote them "
                "(whole-second, 24:00, decimal hour, decimal minute) + derived operands; all ordered pairs of each "
                "cluster, all cross-cluster pairs of 5 representatives, all triples of a 36-element sub-pool per "
                "cluster; a tolerance-domain cluster of non-binary decimals",
        "bounds": {"modes": _kinds(tier), "clusters_per_mode": {k: len(collide.base_instants(k, tier)) for k in _kinds(tier)},
                   "tolerance_s": 1e-6},
        "alphabet_sizes": {"offsets": len(collide.OFFSETS_EXACT) + len(collide.OFFSETS_BIG),
                           "derivations": len(collide.DERIVATIONS)},
        "exhaustive": True,
        "assumptions": ["==/hash agreement is demanded only in the exact float domain; order only when instants "
                        "differ by more than 1 us otherwise (DESIGN section 4)"],
    }
