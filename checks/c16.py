"""C16 - time points, durations, zones and recurrences are immutable values.

History exploration over a pool of values. An event applies one public operation to operands taken
from the pool; value-returning events append their results to the pool *by identity* (aliasing
between a result and an operand is kept). Invariant after every event: the deep snapshot (every
slot, recursively) of every object ever in the pool equals the snapshot taken when it entered;
string forms and hashes are re-checked at the end of every chain.
"""
import itertools

from isomc import impl, alphabets as A

ID = "C16"
TITLE = "Time points, durations, zones and recurrences are immutable values"
TP, DU, TZ, TR = impl.TimePoint, impl.Duration, impl.TimeZone, impl.TimeRecurrence
LIB = (TP, DU, TR)


def initial_pool():
    """Fresh objects (name, object)."""
    D = impl.D
    p_cal = TP(year=2015, month_of_year=12, day_of_month=31, hour_of_day=23, minute_of_hour=59, second_of_minute=59,
               time_zone_hour=-5, time_zone_minute=-30)
    p_ord24 = TP(year=2016, day_of_year=366, hour_of_day=24, minute_of_hour=0, second_of_minute=0)
    p_week = TP(year=2015, week_of_year=53, day_of_week=4, hour_of_day=6, hour_of_day_decimal=0.25, time_zone_hour=1)
    p_cal2 = TP(year=2016, month_of_year=1, day_of_month=31, dump_format="CCYY-DDDThh:mmZ")
    t_hour = TP(truncated=True, hour_of_day=6)
    t_day = TP(truncated=True, day_of_month=31, minute_of_hour=30, time_zone_hour=0, time_zone_minute=0)
    d_unit = DU(days=1, hours=2)
    d_week = DU(weeks=2)
    d_nom = DU(months=1, days=2)
    d_neg = DU(minutes=-90)
    d_empty = DU()
    z_known = TZ(hours=5, minutes=45)
    z_unknown = TZ(unknown=True)
    r3 = TR(repetitions=3, start_point=TP(year=2016, month_of_year=1, day_of_month=31), duration=DU(days=1))
    r4 = TR(duration=DU(months=1), end_point=TP(year=2016, month_of_year=3, day_of_month=31, time_zone_hour=1))
    r1 = TR(repetitions=2, start_point=TP(year=2015, week_of_year=53, day_of_week=7), end_point=TP(year=2016, day_of_year=10))
    r3n = TR(repetitions=3, start_point=TP(year=2016, month_of_year=1, day_of_month=31), duration=DU(months=1))
    r_one = TR(repetitions=1, start_point=TP(year=2016, day_of_year=60), duration=DU(days=1))      # normalised to one point
    r_zero = TR(duration=DU(seconds=0), end_point=TP(year=2016, month_of_year=2, day_of_month=29))  # zero interval
    d_dec = DU(minutes=0.55)                               # arithmetic with it leaves float noise in the seconds
    z_neg = TZ(hours=-3, minutes=-30)
    z_half = TZ(hours=0, minutes=30)
    t_dom = TP(truncated=True, day_of_month=5)            # date-only, zone unknown
    t_wd = TP(truncated=True, day_of_week=3)
    return [("p_cal", p_cal), ("p_ord24", p_ord24), ("p_week", p_week), ("p_cal2", p_cal2), ("t_hour", t_hour),
            ("t_day", t_day), ("d_unit", d_unit), ("d_week", d_week), ("d_nom", d_nom), ("d_neg", d_neg),
            ("d_empty", d_empty), ("z_known", z_known), ("z_unknown", z_unknown), ("r3", r3), ("r4", r4), ("r1", r1), ("r3n", r3n), ("r_one", r_one), ("r_zero", r_zero), ("t_dom", t_dom), ("t_wd", t_wd), ("d_dec", d_dec), ("z_neg", z_neg), ("z_half", z_half)]


def kind_of(o):
    if isinstance(o, TZ):
        return "Z"
    if isinstance(o, DU):
        return "D"
    if isinstance(o, TP):
        return "P"
    if isinstance(o, TR):
        return "R"
    return None


def _take5(r):
    return list(itertools.islice(iter(r), 5))


def _local(p):
    with impl.system_zone(345):
        return p.to_local_time_zone()


_P_PROPS = ["year", "month_of_year", "week_of_year", "day_of_year", "day_of_month", "day_of_week", "hour_of_day",
            "minute_of_hour", "second_of_minute", "time_zone", "truncated", "truncated_property", "dump_format",
            "num_expanded_year_digits", "year_sign", "century", "year_of_century", "year_of_decade", "decade_of_century",
            "expanded_year_digits", "hour_of_day_decimal_string", "minute_of_hour_decimal_string",
            "second_of_minute_decimal_string", "time_zone_minute_abs", "time_zone_hour_abs", "time_zone_sign",
            "seconds_since_unix_epoch"]


def _props(p):
    out = []
    for n in _P_PROPS:
        try:
            out.append(getattr(p, n))
        except Exception as e:  # noqa
            out.append(type(e).__name__)
    return out


# (name, signature, function). Signature letters: P point, D duration (incl. zones), Z zone, R recurrence
OPS = [
    ("str", "P", str), ("repr", "P", repr), ("hash", "P", hash), ("to_utc", "P", lambda p: p.to_utc()),
    ("to_local_time_zone", "P", _local), ("to_calendar_date", "P", lambda p: p.to_calendar_date()),
    ("to_ordinal_date", "P", lambda p: p.to_ordinal_date()), ("to_week_date", "P", lambda p: p.to_week_date()),
    ("to_hour_minute_second", "P", lambda p: p.to_hour_minute_second()),
    ("get_calendar_date", "P", lambda p: p.get_calendar_date()), ("get_ordinal_date", "P", lambda p: p.get_ordinal_date()),
    ("get_week_date", "P", lambda p: p.get_week_date()), ("get_hour_minute_second", "P", lambda p: p.get_hour_minute_second()),
    ("get_second_of_day", "P", lambda p: p.get_second_of_day()), ("get_props", "P", lambda p: p.get_props()),
    ("get_truncated_properties", "P", lambda p: p.get_truncated_properties()),
    ("truncated_names", "P", lambda p: (p.get_largest_truncated_property_name(), p.get_smallest_missing_property_name())),
    ("get_time_zone_utc", "P", lambda p: p.get_time_zone_utc()), ("properties", "P", _props),
    ("strftime", "P", lambda p: p.strftime("%Y-%m-%dT%H:%M:%S%z %j %s")),
    ("dump_week", "P", lambda p: impl.D.TIMEPOINT_DUMPER_MAP[0].dump(p, "CCYY-Www-DThh:mm:ss+01:00")),
    ("add_truncated_dom", "P", lambda p: p.add_truncated(day_of_month=5)),
    ("add_truncated_doy", "P", lambda p: p.add_truncated(day_of_year=100)),
    ("add_truncated_wd", "P", lambda p: p.add_truncated(day_of_week=3)),
    ("add_truncated_week", "P", lambda p: p.add_truncated(week_of_year=20)),
    ("add_truncated_month", "P", lambda p: p.add_truncated(month_of_year=6)),
    ("add_truncated_hm", "P", lambda p: p.add_truncated(hour_of_day=6, minute_of_hour=30)),
    ("add_months_0", "P", lambda p: p.add_months(0)), ("add_months_1", "P", lambda p: p.add_months(1)),
    ("add_months_-13", "P", lambda p: p.add_months(-13)), ("time_zone", "P", lambda p: p.time_zone),
    ("P+P", "PP", lambda a, b: a + b), ("P-P", "PP", lambda a, b: a - b), ("P==P", "PP", lambda a, b: a == b),
    ("P!=P", "PP", lambda a, b: a != b), ("P<P", "PP", lambda a, b: a < b), ("P<=P", "PP", lambda a, b: a <= b),
    ("P>P", "PP", lambda a, b: a > b), ("P>=P", "PP", lambda a, b: a >= b),
    ("get_time_zone_offset", "PP", lambda a, b: a.get_time_zone_offset(b)),
    ("P+D", "PD", lambda p, d: p + d), ("P-D", "PD", lambda p, d: p - d), ("D+P", "DP", lambda d, p: d + p),
    ("to_time_zone", "PZ", lambda p, z: p.to_time_zone(z)),
    ("Dstr", "D", str), ("Drepr", "D", repr), ("Dhash", "D", hash), ("abs", "D", abs), ("bool", "D", bool),
    ("to_days", "D", lambda d: d.to_days()), ("to_weeks", "D", lambda d: d.to_weeks()),
    ("get_seconds", "D", lambda d: d.get_seconds()), ("get_days_and_seconds", "D", lambda d: d.get_days_and_seconds()),
    ("is_exact", "D", lambda d: d.is_exact()), ("get_is_in_weeks", "D", lambda d: d.get_is_in_weeks()),
    ("D*2", "D", lambda d: d * 2), ("-1*D", "D", lambda d: -1 * d), ("D//2", "D", lambda d: d // 2),
    ("Dprops", "D", lambda d: (d.years, d.months, d.weeks, d.days, d.hours, d.minutes, d.seconds)),
    ("D+D", "DD", lambda a, b: a + b), ("D-D", "DD", lambda a, b: a - b), ("D==D", "DD", lambda a, b: a == b),
    ("D<D", "DD", lambda a, b: a < b), ("D<=D", "DD", lambda a, b: a <= b), ("D>D", "DD", lambda a, b: a > b),
    ("D>=D", "DD", lambda a, b: a >= b),
    ("Rstr", "R", str), ("Rrepr", "R", repr), ("Rhash", "R", hash), ("Riter", "R", _take5),
    ("R[0]", "R", lambda r: r[0]), ("R[1]", "R", lambda r: r[1]),
    ("Rprops", "R", lambda r: [r.repetitions, r.start_point, r.end_point, r.duration, r.min_point, r.max_point,
                                r.format_number]),
    ("get_is_valid", "RP", lambda r, p: r.get_is_valid(p)), ("get_next", "RP", lambda r, p: r.get_next(p)),
    ("get_prev", "RP", lambda r, p: r.get_prev(p)), ("get_first_after", "RP", lambda r, p: r.get_first_after(p)),
    ("R+D", "RD", lambda r, d: r + d), ("R-D", "RD", lambda r, d: r - d), ("D+R", "DR", lambda d, r: d + r),
    ("R==R", "RR", lambda a, b: a == b), ("R!=R", "RR", lambda a, b: a != b),
]


def fits(sig_letter, obj):
    k = kind_of(obj)
    if sig_letter == "D":
        return k in ("D", "Z")
    return k == sig_letter


def flatten(res):
    out = []
    stack = [res]
    while stack:
        x = stack.pop()
        if isinstance(x, LIB):
            out.append(x)
        elif isinstance(x, (list, tuple)):
            stack.extend(x)
        elif isinstance(x, dict):
            stack.extend(x.values())
    return out


def children(o):
    """Library objects linked from o (one level)."""
    out = []
    if isinstance(o, TP):
        out.append(o._time_zone)
    elif isinstance(o, TR):
        for s in TR.__slots__:
            v = getattr(o, s, None)
            if isinstance(v, LIB):
                out.append(v)
    return out


class Pool:
    def __init__(self):
        self.objs = []      # (name, obj, snapshot, text, hash)
        self.ids = {}
        for name, o in initial_pool():
            self.add(name, o)
        self.n_initial = len(self.objs)

    def _text_hash(self, o):
        try:
            t = str(o)
        except Exception as e:  # noqa
            t = "EXC:" + type(e).__name__
        try:
            h = hash(o)
        except Exception as e:  # noqa
            h = "EXC:" + type(e).__name__
        return t, h

    def add(self, name, o):
        """Add o and everything it links to (by identity). Returns number of sub-objects shared with older values."""
        shared = 0
        stack = [(name, o)]
        while stack:
            n, x = stack.pop()
            if id(x) in self.ids:
                if x is not o:
                    shared += 1
                continue
            self.ids[id(x)] = len(self.objs)
            snap = impl.canon(x)          # before str()/hash() run, so that a mutating str/hash is seen
            t, h = self._text_hash(x)
            self.objs.append((n, x, snap, t, h))
            for ch in children(x):
                stack.append((n + ".sub", ch))
        return shared

    def reachable(self, operand_ix):
        """Indices of the pool objects an operation on these operands can reach by reference (the operands and,
        recursively, the library objects linked from them). Nothing else can be mutated by the call: there is no
        registry of live values, so checking these after every event loses nothing (all objects are re-checked, with
        string forms and hashes, at the end of every chain group)."""
        seen, stack = set(), [self.objs[i][1] for i in operand_ix]
        while stack:
            x = stack.pop()
            if id(x) in seen:
                continue
            seen.add(id(x))
            stack.extend(children(x))
        return [self.ids[i] for i in seen if i in self.ids]

    def check(self, ctx, history, deep, only=None):
        for k, (n, x, snap, t, h) in enumerate(self.objs):
            if only is not None and k not in only:
                continue
            now = impl.canon(x)
            if now != snap:
                ctx.violation("operand_state_changed", {"object": n.split(".")[0][:12], "op": history[-1][0]},
                              {"kind": "history", "history": history}, repr(snap)[:300], repr(now)[:300])
                return False
            if deep:
                t2, h2 = self._text_hash(x)
                if t2 != t or h2 != h:
                    ctx.violation("operand_text_or_hash_changed", {"object": n.split(".")[0][:12], "op": history[-1][0]},
                                  {"kind": "history", "history": history}, [t, h], [t2, h2])
                    return False
        return True


def apply(ctx, pool, opname, fn, operand_ix, history):
    args = [pool.objs[i][1] for i in operand_ix]
    impl._H.ticks = 0
    saved = impl._H.budget
    impl._H.budget = 20000
    ctx.transitions += 1
    try:
        res = impl.guarded(fn, *args, seconds=20.0)
    except BaseException as ex:  # noqa - exceptions (incl. the documented hangs F6/F8) are observations, not the subject
        ctx.counters["events_raising"] = ctx.counters.get("events_raising", 0) + 1
        res = None
    finally:
        impl._H.budget = saved
    new = []
    for o in flatten(res):
        if id(o) not in pool.ids:
            new.append(o)
        else:
            ctx.counters["results_identical_to_an_operand"] = ctx.counters.get("results_identical_to_an_operand", 0) + 1
    shared = 0
    for o in new:
        shared += pool.add("res:" + opname, o)
    if shared:
        ctx.counters["results_sharing_a_subobject_with_an_older_value"] = ctx.counters.get(
            "results_sharing_a_subobject_with_an_older_value", 0) + shared
    return new


def first_events():
    """All (op index, operand indices) over the initial pool."""
    init = initial_pool()
    evs = []
    for oi, (name, sig, fn) in enumerate(OPS):
        slots = [[i for i, (_, o) in enumerate(init) if fits(ch, o)] for ch in sig]
        for combo in itertools.product(*slots):
            evs.append((oi, combo))
    return evs


def units(tier):
    n = len(first_events())
    step = 12 if tier == "quick" else 6
    return [("chains", i, min(i + step, n)) for i in range(0, n, step)]


def explore_from(ctx, oi, combo, depth):
    name, sig, fn = OPS[oi]
    pool = Pool()
    if not pool.check(ctx, [["str/hash (taken when a value enters the pool)", []]], deep=True):
        return
    h1 = [[name, [pool.objs[i][0] for i in combo]]]
    new = apply(ctx, pool, name, fn, combo, h1)
    ctx.traces += 1
    ctx.state((name, combo))
    if not pool.check(ctx, h1, deep=True):
        return
    if depth < 2:
        return
    # second events: at least one operand is a new object (or a sub-object that entered with it)
    fresh_ix = list(range(pool.n_initial, len(pool.objs)))
    if not fresh_ix:
        return
    base_ix = list(range(pool.n_initial))
    for oj, (name2, sig2, fn2) in enumerate(OPS):
        for pos in range(len(sig2)):
            slots = []
            for q, ch in enumerate(sig2):
                cand = fresh_ix if q == pos else base_ix
                slots.append([i for i in cand if fits(ch, pool.objs[i][1])])
            for combo2 in itertools.product(*slots):
                h2 = h1 + [[name2, [pool.objs[i][0] for i in combo2]]]
                before = len(pool.objs)
                new2 = apply(ctx, pool, name2, fn2, combo2, h2)
                ctx.traces += 1
                if not pool.check(ctx, h2, deep=False, only=set(pool.reachable(combo2)) | set(range(before, len(pool.objs)))):
                    return
                if depth >= 3 and new2:
                    third_ix = list(range(before, len(pool.objs)))
                    for ok_, (name3, sig3, fn3) in enumerate(OPS):
                        if len(sig3) != 1:
                            continue
                        for i3 in third_ix:
                            if fits(sig3, pool.objs[i3][1]):
                                h3 = h2 + [[name3, [pool.objs[i3][0]]]]
                                b3 = len(pool.objs)
                                apply(ctx, pool, name3, fn3, (i3,), h3)
                                ctx.traces += 1
                                if not pool.check(ctx, h3, deep=False, only=set(pool.reachable((i3,))) | set(range(b3, len(pool.objs)))):
                                    return
    pool.check(ctx, h1 + [["<end of chains>", []]], deep=True)
    ctx.maximum("max_pool_size", len(pool.objs))


def run_unit(unit, ctx):
    impl.set_mode(None)
    evs = first_events()
    depth = 2 if ctx.tier == "quick" else 3
    for oi, combo in evs[unit[1]:unit[2]]:
        ctx.sample(lambda: {"first_event": [OPS[oi][0], list(combo)], "depth": depth})
        explore_from(ctx, oi, combo, depth)


def replay_case(case, ctx):
    impl.set_mode(None)
    names = {n: i for i, (n, _) in enumerate(initial_pool())}
    h = case["history"]
    first = h[0]
    oi = [i for i, o in enumerate(OPS) if o[0] == first[0]][0]
    combo = tuple(names[n] for n in first[1])
    explore_from(ctx, oi, combo, 3)


def vacuity(tier, counters, outcomes):
    if counters.get("results_sharing_a_subobject_with_an_older_value", 0) + counters.get("results_identical_to_an_operand", 0) < 10:
        return "no aliasing between results and operands was ever observed"
    return None


def describe(tier):
    return {
        "rule": "pool of 24 values (points in 3 representations incl. 24:00, a decimal form, a custom dump format, two "
                "truncated points; 5 durations; known/unknown zones; 3 recurrences); %d operations; every first event "
                "over the initial pool, then every second event with at least one operand taken from the first event's "
                "results (incl. linked sub-objects), other operands from the initial pool%s; deep slot snapshots of all "
                "pool objects after every event, string forms and hashes after every chain group" % (
                    len(OPS), "" if tier == "quick" else "; then every unary operation on the second event's results"),
        "bounds": {"depth": 2 if tier == "quick" else 3},
        "alphabet_sizes": {"operations": len(OPS), "initial_pool": len(initial_pool()), "first_events": len(first_events())},
        "exhaustive": True,
        "assumptions": ["interleavings of events on unrelated values are not enumerated: operations read only their "
                        "operands and the calendar mode (C15), so they commute"],
    }
