"""C10 - durations survive a round trip through text.

States: single-signed Durations over a per-unit value alphabet (+ week forms), and well-formed
duration strings in the three notations generated from M's own grammar. Transitions: str, parse,
parse(str(d)), str(parse(s)). Oracle: round trip, fixpoint, designator fidelity, alternative
spelling == designator spelling.
"""
import itertools
from fractions import Fraction

from isomc import impl

ID = "C10"
TITLE = "Durations survive a round trip through text"

INT_VALS = [0, 1, 12, 400]
MONTH_VALS = [0, 1, 12, 59]
TIME_VALS = [0, 1, 12, 59, 0.5, 0.1, 100000]
SEC_VALS = [0, 1, 12, 59, 0.25, 0.1, 123456.789]
# every two-decimal value below 100 and small magnitudes, one unit at a time (unit "decimals")
TWO_DEC = [i / 100.0 for i in range(1, 10000)]
SMALL = [0.001, 0.0001, 0.00005, 0.000001, 1e-07, 0.999999, 59.999999, 59.9999999999, 86400000.05, 123456789.25,
         500000000.5, 8640000.25, 1e9 + 0.01, 0.30000000000000004]
TIME_VALS_T = TIME_VALS + [0.25, 1.5, 23, 24]
SEC_VALS_T = SEC_VALS + [0.5, 59.999999, 60, 3600]


def _parser():
    from metomi.isodatetime.parsers import DurationParser
    return DurationParser()


def units(tier):
    us = []
    ys = INT_VALS if tier == "quick" else INT_VALS + [9999]
    for sign in (1, -1):
        for y in ys:
            for mo in MONTH_VALS:
                us.append(("objs", sign, y, mo))
    us.append(("weeks",))
    for unit_name in ("hours", "minutes", "seconds"):
        us.append(("decimals", unit_name))
    for k in range(1, 64, 4):
        us.append(("designators", k, min(k + 4, 64)))
    for i in range(4):
        us.append(("alt", i))
    us.append(("alt_refused",))
    us.append(("alt_forms",))
    return us


def _fields(d):
    if d.get_is_in_weeks():
        return {"weeks": d.weeks}
    return {"years": d.years, "months": d.months, "days": d.days, "hours": d.hours, "minutes": d.minutes,
            "seconds": d.seconds}


def check_obj(ctx, parser, kw):
    case = lambda: {"kind": "obj", "d": kw}  # noqa: E731
    sig = {"negative": any(v < 0 for v in kw.values()), "weeks": "weeks" in kw}
    ctx.transitions += 3
    try:
        d = impl.Duration(**kw)
        text = str(d)
        d2 = parser.parse(text)
        text2 = str(d2)
    except Exception as ex:
        ctx.violation("total", dict(sig, exc=type(ex).__name__), case, "str and parse work",
                      "raised %s: %s" % (type(ex).__name__, ex))
        return
    ctx.traces += 1
    ctx.outcome("text_len", len(text))
    if not (d2 == d) or (d2 != d) or hash(d2) != hash(d):
        ctx.violation("roundtrip_equal", sig, case, text, str(d2))
    f1, f2 = _fields(d), _fields(d2)
    if f1.keys() != f2.keys() or any(Fraction(f1[k]) != Fraction(f2[k]) for k in f1):
        ctx.violation("roundtrip_fields", sig, case, {k: repr(v) for k, v in f1.items()},
                      {"text": text, "fields": {k: repr(v) for k, v in f2.items()}})
    if text2 != text:
        ctx.violation("str_fixpoint", sig, case, text, text2)


def _num_text(v, sep):
    if isinstance(v, int):
        return str(v)
    return repr(v).replace(".", sep)


def check_designator_string(ctx, parser, comps, sep, neg):
    """comps: list of (unit letter, key, value) in order; text rendered by M."""
    date = "".join(_num_text(v, sep) + u for u, k, v in comps if k in ("years", "months", "days"))
    time = "".join(_num_text(v, sep) + u for u, k, v in comps if k in ("hours", "minutes", "seconds"))
    text = ("-" if neg else "") + "P" + date + ("T" + time if time else "")
    case = lambda: {"kind": "designators", "text": text}  # noqa: E731
    sig = {"negative": neg, "sep": sep}
    ctx.transitions += 2
    try:
        d = parser.parse(text)
    except Exception as ex:
        ctx.violation("parse_wellformed", dict(sig, exc=type(ex).__name__), case, "accepted",
                      "raised %s: %s" % (type(ex).__name__, ex))
        return
    ctx.traces += 1
    want = {"years": 0, "months": 0, "days": 0, "hours": 0, "minutes": 0, "seconds": 0}
    for u, k, v in comps:
        want[k] = -v if neg else v
    got = _fields(d)
    if got.keys() != want.keys() or any(Fraction(got[k]) != Fraction(want[k]) for k in want):
        ctx.violation("designator_fidelity", sig, case, {k: repr(v) for k, v in want.items()},
                      {k: repr(v) for k, v in got.items()})
        return
    # and the text form of the parsed value parses back to an equal duration (fixpoint from a string start)
    try:
        t2 = str(d)
        d3 = parser.parse(t2)
        if not (d3 == d) or str(d3) != t2:
            ctx.violation("str_fixpoint", sig, case, t2, str(d3))
    except Exception as ex:
        ctx.violation("total", dict(sig, exc=type(ex).__name__), case, "str(parse(s)) parses", repr(ex))


ALT_Y = [0, 1, 12, 9999]
ALT_MO = [0, 1, 11, 12]
ALT_D = [0, 1, 28, 31]
ALT_DOY = [0, 1, 59, 366]
ALT_H = [0, 1, 23]
ALT_MI = [0, 30, 59]
ALT_S = [0, 30, 59]


def check_alt(ctx, parser, text, want, sig):
    case = lambda: {"kind": "alt", "text": text, "want": want}  # noqa: E731
    ctx.transitions += 2
    try:
        d = parser.parse(text)
    except Exception as ex:
        ctx.violation("parse_wellformed", dict(sig, exc=type(ex).__name__), case, "accepted",
                      "raised %s: %s" % (type(ex).__name__, ex))
        return
    ctx.traces += 1
    got = _fields(d)
    full = {"years": 0, "months": 0, "days": 0, "hours": 0, "minutes": 0, "seconds": 0}
    full.update(want)
    if got.keys() != full.keys() or any(got[k] is None or Fraction(got[k]) != Fraction(full[k]) for k in full):
        ctx.violation("alternative_fidelity", sig, case, full, {k: repr(v) for k, v in got.items()})
        return
    # same duration as its designator spelling
    des = "P%dY%dM%dDT%sH%sM%sS" % (full["years"], full["months"], full["days"], _num_text(full["hours"], ","),
                                    _num_text(full["minutes"], ","), _num_text(full["seconds"], ","))
    try:
        d2 = parser.parse(des)
        if not (d2 == d) or hash(d2) != hash(d):
            ctx.violation("alternative_equals_designators", sig, case, des, str(d))
    except Exception as ex:
        ctx.violation("total", dict(sig, exc=type(ex).__name__), case, "designator spelling parses", repr(ex))


def run_unit(unit, ctx):
    parser = _parser()
    u = unit[0]
    if u == "objs":
        _, sign, y, mo = unit
        tv = TIME_VALS if ctx.tier == "quick" else TIME_VALS_T
        sv = SEC_VALS if ctx.tier == "quick" else SEC_VALS_T
        for d in INT_VALS:
            for h in tv:
                for mi in tv:
                    for s in sv:
                        kw = {"years": sign * y, "months": sign * mo, "days": sign * d, "hours": sign * h,
                              "minutes": sign * mi, "seconds": sign * s}
                        ctx.state_count += 1
                        ctx.sample(kw)
                        check_obj(ctx, parser, kw)
    elif u == "decimals":
        for v in TWO_DEC + SMALL:
            for sign in (1, -1):
                ctx.state_count += 1
                check_obj(ctx, parser, {unit[1]: sign * v})
                if unit[1] != "seconds":
                    check_obj(ctx, parser, {"days": sign * 1, unit[1]: sign * v})
        letter = {"hours": "H", "minutes": "M", "seconds": "S"}[unit[1]]
        for v in TWO_DEC[::7] + [1.14, 2.47, 4.56]:
            check_designator_string(ctx, parser, [(letter, unit[1], v)], ",", False)
    elif u == "weeks":
        for w in range(-1000, 1001):
            ctx.state_count += 1
            check_obj(ctx, parser, {"weeks": w})
        for w in (1, 5, 52, 1000, 0):
            for text, neg in (("P%dW" % w, False), ("-P%dW" % w, True)):
                ctx.transitions += 1
                d = parser.parse(text)
                want = -w if neg else w
                if (d.get_is_in_weeks() and d.weeks != want) or (not d.get_is_in_weeks() and want != 0):
                    ctx.violation("designator_fidelity", {"weeks": True}, {"kind": "weeks", "text": text}, want, str(d))
    elif u == "designators":
        order = [("Y", "years"), ("M", "months"), ("D", "days"), ("H", "hours"), ("M", "minutes"), ("S", "seconds")]
        for mask in range(unit[1], unit[2]):
            present = [order[i] for i in range(6) if mask & (1 << i)]
            choices = []
            for i, (uu, k) in enumerate(present):
                vals = [1, 12, 7]
                if k in ("hours", "minutes", "seconds"):
                    vals = vals + ([0.5, 1.25] if i == len(present) - 1 else [])
                choices.append([(uu, k, v) for v in vals])
            for comps in itertools.product(*choices):
                ctx.state_count += 1
                has_dec = any(isinstance(v, float) for _, _, v in comps)
                for sep in ((",", ".") if has_dec else (",",)):
                    for neg in (False, True):
                        check_designator_string(ctx, parser, list(comps), sep, neg)
    elif u == "alt":
        y = ALT_Y[unit[1]]
        for mo in ALT_MO:
            for d in ALT_D:
                for h in ALT_H:
                    for mi in ALT_MI:
                        for s in ALT_S:
                            ctx.state_count += 1
                            want = {"years": y, "months": mo, "days": d, "hours": h, "minutes": mi, "seconds": s}
                            check_alt(ctx, parser, "P%04d-%02d-%02dT%02d:%02d:%02d" % (y, mo, d, h, mi, s), want,
                                      {"form": "extended"})
                            check_alt(ctx, parser, "P%04d%02d%02dT%02d%02d%02d" % (y, mo, d, h, mi, s), want,
                                      {"form": "basic"})
        for doy in ALT_DOY:
            for h in ALT_H:
                for mi in ALT_MI:
                    want = {"years": y, "days": doy, "hours": h, "minutes": mi}
                    check_alt(ctx, parser, "P%04d-%03dT%02d:%02d" % (y, doy, h, mi), want, {"form": "ordinal_ext_reduced"})
                    check_alt(ctx, parser, "P%04d%03dT%02d%02d" % (y, doy, h, mi), want, {"form": "ordinal_basic_reduced"})
                    check_alt(ctx, parser, "P%04d-%03dT%02d" % (y, doy, h), {"years": y, "days": doy, "hours": h},
                              {"form": "ordinal_ext_hour"})
        for mo in ALT_MO:
            for d in ALT_D:
                check_alt(ctx, parser, "P%04d-%02d-%02d" % (y, mo, d), {"years": y, "months": mo, "days": d},
                          {"form": "date_only_ext"})
                check_alt(ctx, parser, "P%04d%02d%02d" % (y, mo, d), {"years": y, "months": mo, "days": d},
                          {"form": "date_only_basic"})
                check_alt(ctx, parser, "P%04d-%02d-%02dT12:30:15,5" % (y, mo, d),
                          {"years": y, "months": mo, "days": d, "hours": 12, "minutes": 30, "seconds": 15.5},
                          {"form": "decimal_seconds"})
        # reduced dates of the alternative notation (the parser documents year, year-month and ordinal dates without a
        # time part): omitted lower-order fields are zero, and the value is usable (==, hash, str) like any other
        check_alt(ctx, parser, "P%04d" % y, {"years": y}, {"form": "year_only"})
        for mo in ALT_MO:
            check_alt(ctx, parser, "P%04d-%02d" % (y, mo), {"years": y, "months": mo}, {"form": "year_month_ext"})
        for doy in ALT_DOY:
            check_alt(ctx, parser, "P%04d-%03d" % (y, doy), {"years": y, "days": doy}, {"form": "ordinal_date_only_ext"})
            check_alt(ctx, parser, "P%04d%03d" % (y, doy), {"years": y, "days": doy}, {"form": "ordinal_date_only_basic"})
    elif u == "alt_forms":
        # the alternative notation over M's whole table of time forms (incl. decimal hours and minutes)
        from isomc import mtext
        from fractions import Fraction as F
        dforms, tforms = mtext.date_forms(), mtext.time_forms()
        for dname in ("cal_ext", "cal_basic", "ord_ext", "ord_basic"):
            dtoks, dkind, cls, rep = dforms[dname]
            for dv in ({"year": 4, "month": 2, "day": 3, "doy": 78}, {"year": 0, "month": 0, "day": 0, "doy": 0},
                       {"year": 9999, "month": 12, "day": 31, "doy": 366}):
                for tname, (ttoks, tkind, prec) in tforms.items():
                    if not mtext.compatible(dkind, tkind):
                        continue
                    for tv in ({"h": 10, "m": 30, "s": 15}, {"h": 0, "m": 0, "s": 0}, {"h": 23, "m": 59, "s": 59}):
                        for fr in (("5", "25", "0", "125") if prec in ("fh", "fm", "fs") else (None,)):
                            f = dict(tv)
                            if fr:
                                f["frac"] = fr
                            text = "P" + mtext.render(dtoks, dv) + "T" + mtext.render(ttoks, f)
                            want = {"years": dv["year"]}
                            if rep == "cal":
                                want.update(months=dv["month"], days=dv["day"])
                            else:
                                want["days"] = dv["doy"]
                            frac = F(int(fr), 10 ** len(fr)) if fr else F(0)
                            want["hours"] = tv["h"] + (frac if prec == "fh" else 0)
                            if "mm" in ttoks:
                                want["minutes"] = tv["m"] + (frac if prec == "fm" else 0)
                            if "ss" in ttoks:
                                want["seconds"] = tv["s"] + (frac if prec == "fs" else 0)
                            want = {k: (float(v) if isinstance(v, F) and v.denominator != 1 else int(v)) for k, v in want.items()}
                            ctx.state_count += 1
                            check_alt(ctx, parser, text, want, {"form": dname + "|" + tname})
    elif u == "alt_refused":
        from metomi.isodatetime.exceptions import ISO8601SyntaxError
        for text in ("P0001-W02-3T04:05:06", "P0001W023T040506", "-P0001-02-03T04:05:06", "-P00010203T040506",
                     "P2001-W01-1", "-P0001-02-03"):
            ctx.transitions += 1
            ctx.state_count += 1
            try:
                d = parser.parse(text)
                ctx.violation("alternative_refusals", {"text": text}, {"kind": "refused", "text": text},
                              "refused (week date / '-' prefix in the alternative notation)", str(d))
            except ISO8601SyntaxError:
                ctx.traces += 1
            except Exception as ex:
                ctx.violation("alternative_refusals", {"text": text, "exc": type(ex).__name__},
                              {"kind": "refused", "text": text}, "ISO8601SyntaxError", repr(ex))


def replay_case(case, ctx):
    parser = _parser()
    if case["kind"] == "obj":
        check_obj(ctx, parser, case["d"])
    elif case["kind"] == "alt":
        check_alt(ctx, parser, case["text"], case["want"], {})
    elif case["kind"] == "designators":
        # re-derive components from the text with M's own reading
        import re
        text = case["text"]
        neg = text.startswith("-")
        body = text.lstrip("-")[1:]
        date, _, time = body.partition("T")
        comps = []
        for part, names in ((date, {"Y": "years", "M": "months", "D": "days"}),
                            (time, {"H": "hours", "M": "minutes", "S": "seconds"})):
            for num, u in re.findall(r"([0-9]+(?:[,.][0-9]+)?)([YMDHS])", part):
                v = float(num.replace(",", ".")) if ("," in num or "." in num) else int(num)
                comps.append((u, names[u], v))
        sep = "." if "." in text else ","
        check_designator_string(ctx, parser, comps, sep, neg)
    elif case["kind"] == "refused":
        run_unit(("alt_refused",), ctx)


def vacuity(tier, counters, outcomes):
    if outcomes.get("text_len", 0) < 10:
        return "too few distinct text lengths"
    return None


def describe(tier):
    return {
        "rule": "Durations: both signs x years x months x days x hours x minutes x seconds over per-unit value sets "
                "(absent/0, 1, 12, a large value, a dyadic and a general decimal); week forms -1000..1000; designator "
                "strings for all 63 non-empty unit subsets x value choices x {comma, point} x {+,-}; alternative "
                "notation (extended, basic, ordinal, reduced, date-only, decimal) over a field value product; "
                "refusals (week dates, '-' prefix) in the alternative notation",
        "bounds": {"weeks": [-1000, 1000]},
        "alphabet_sizes": {"int_vals": len(INT_VALS), "time_vals": len(TIME_VALS if tier == "quick" else TIME_VALS_T)},
        "exhaustive": True,
        "assumptions": ["years, months, days are integers (the constructor's type rule); decimals on time units"],
    }
