"""isomc kernel: sharded exhaustive enumeration, counters, violations, evidence, known findings.

A check module (checks/cNN.py) provides
    ID, TITLE
    units(tier)            -> list of picklable work units, in a fixed order
    run_unit(unit, ctx)    -> executes every case of the unit on the real code, reporting via ctx
    describe(tier)         -> dict(rule=..., bounds=..., alphabet_sizes=..., exhaustive=bool,
                                   assumptions=[...], technique=...)
    replay_case(case, ctx) -> re-executes one recorded case (used by bin/replay)
Every case of every unit is executed: nothing is sampled. VERIF_SEED only rotates the
unit-to-worker assignment and picks which explored cases are copied into coverage.samples.
"""
import importlib
import json
import multiprocessing as mp
import os
import signal
import sys
import time
import traceback

VERIF = os.path.dirname(os.path.dirname(os.path.abspath(__file__)))
OUT = os.environ.get("VERIF_OUT", VERIF)   # where evidence/ and replays/ are written (mutant runs redirect it)
NPROC = int(os.environ.get("VERIF_NPROC", "16"))
MAX_FILES_PER_ORACLE = 5
MAX_OUTCOMES = 2000


class HarnessError(Exception):
    pass


class HorizonExceeded(BaseException):
    """Raised (as BaseException so no library 'except Exception' can swallow it) when an
    execution does not finish within its tick budget / watchdog."""


def bind_repo():
    repo = os.environ.get("VERIF_REPO", "/repo")
    if repo not in sys.path[:1]:
        sys.path.insert(0, repo)
    if VERIF not in sys.path:
        sys.path.insert(1, VERIF)
    import metomi.isodatetime as pkg
    real = os.path.realpath(pkg.__file__)
    if not real.startswith(os.path.realpath(repo) + os.sep):
        raise HarnessError("metomi.isodatetime imported from %s, not under %s" % (real, repo))
    return repo


class Ctx:
    """Per-unit collector. All counts are measured, none are constants."""

    def __init__(self, check_id, tier, seed, unit_index=0):
        self.check_id, self.tier, self.seed, self.unit_index = check_id, tier, seed, unit_index
        self.transitions = 0
        self.traces = 0
        self.states = set()
        self.state_count = 0  # for units whose states are disjoint by construction
        self.counters = {}
        self.outcomes = {}
        self.violations = []
        self.vcount = {}
        self.samples = []
        self.caps = {}
        self.maxima = {}
        self._sample_tick = 0

    # counting ---------------------------------------------------------------------------------
    def t(self, n=1):
        self.transitions += n

    def trace(self, n=1):
        self.traces += n

    def state(self, key):
        self.states.add(hash(key))

    def count(self, name, n=1):
        self.counters[name] = self.counters.get(name, 0) + n

    def maximum(self, name, v):
        if v > self.maxima.get(name, float("-inf")):
            self.maxima[name] = v

    def outcome(self, observer, value):
        s = self.outcomes.setdefault(observer, set())
        if len(s) < MAX_OUTCOMES:
            s.add(value if isinstance(value, (str, int, bool, type(None))) else repr(value))

    def cap(self, name, detail):
        self.caps[name] = detail

    def sample(self, case):
        """Keep a few explored cases written out: the first of the unit and a seed-chosen one."""
        self._sample_tick += 1
        if len(self.samples) == 0:
            self.samples.append(case() if callable(case) else case)
        elif len(self.samples) < 2 and (self._sample_tick * 2654435761 + self.seed * 40503) % 997 == 0:
            self.samples.append(case() if callable(case) else case)

    def violation(self, oracle, sig, case, expected=None, observed=None, note=None):
        k = oracle
        self.vcount[k] = self.vcount.get(k, 0) + 1
        # keep at most 40 recorded cases per (oracle, signature) and unit: a flood of one class (e.g. a known finding)
        # must never crowd out a different class that shares its oracle name
        sk = (oracle, json.dumps(sig, sort_keys=True, default=repr))
        self._kept = getattr(self, "_kept", {})
        self._kept[sk] = self._kept.get(sk, 0) + 1
        if self._kept[sk] <= 40:
            self.violations.append({
                "property": self.check_id, "oracle": oracle, "sig": sig,
                "case": case() if callable(case) else case,
                "expected": _js(expected), "observed": _js(observed), "note": note})

    def result(self):
        return {
            "unit_index": self.unit_index, "transitions": self.transitions, "traces": self.traces,
            "states": self.states, "state_count": self.state_count, "counters": self.counters,
            "outcomes": self.outcomes, "violations": self.violations, "vcount": self.vcount,
            "samples": self.samples, "caps": self.caps, "maxima": self.maxima}


def _js(x):
    try:
        json.dumps(x)
        return x
    except TypeError:
        return repr(x)


# ---------------------------------------------------------------------------------------------------
_WORK = {}


def _worker_init(check_mod_name, tier, seed):
    repo = bind_repo()
    covdir = os.environ.get("VERIF_COVERAGE")
    if covdir:
        # optional: line/branch coverage of the library under the exploration (bin/coverage); off by default
        import coverage
        os.makedirs(covdir, exist_ok=True)
        cov = coverage.Coverage(data_file=os.path.join(covdir, ".coverage"), data_suffix=True, branch=True,
                                include=[os.path.join(repo, "metomi", "isodatetime", "*.py")])
        cov.start()
        _WORK["cov"] = cov
    _WORK["mod"] = importlib.import_module(check_mod_name)
    _WORK["tier"], _WORK["seed"] = tier, seed


def _worker_run(item):
    idx, unit = item
    mod = _WORK["mod"]
    ctx = Ctx(mod.ID, _WORK["tier"], _WORK["seed"], idx)
    t_unit = time.time()
    try:
        from isomc import impl
        # every unit starts from the same process-wide state (mode, memo caches), whatever ran before it in this
        # worker: verdicts must not depend on the unit-to-worker assignment
        impl.reset_mode()
        impl.clear_caches()
        mod.run_unit(unit, ctx)
        impl.reset_mode()
    except BaseException as ex:
        if not _raised_in_library(ex):
            return {"unit_index": idx, "harness_error": traceback.format_exc(), "unit": repr(unit)[:500]}
        # the library itself raised on an input the harness holds to be valid (and no per-case guard caught it):
        # that is an observation about the code under test, not a harness fault
        ctx.violation("library_raised", {"exc": type(ex).__name__}, {"kind": "unit", "unit": _js_unit(unit)},
                      "the operation returns (inputs are valid by construction)",
                      "".join(traceback.format_exception(type(ex), ex, ex.__traceback__)[-4:]))
    if "cov" in _WORK:
        _WORK["cov"].save()
    res = ctx.result()
    res["wall"] = time.time() - t_unit
    res["unit"] = repr(unit)[:200]
    return res


def _raised_in_library(ex):
    tb = ex.__traceback__
    last = None
    while tb is not None:
        last = tb.tb_frame.f_code.co_filename
        tb = tb.tb_next
    repo = os.path.realpath(os.environ.get("VERIF_REPO", "/repo"))
    return last is not None and os.path.realpath(last).startswith(repo + os.sep)


def _js_unit(unit):
    return json.loads(json.dumps(unit, default=repr))


def _selfcheck_run(u):
    from isomc import refmodel
    return refmodel.selfcheck_unit(u)


def load_known_findings():
    path = os.path.join(VERIF, "known_findings.json")
    if not os.path.exists(path):
        return []
    with open(path) as fh:
        return json.load(fh)["findings"]


def match_finding(v, findings):
    for f in findings:
        if f.get("status") != "open" or f["property"] != v["property"]:
            continue
        if f["oracle"] != v["oracle"]:
            continue
        sig = v.get("sig") or {}
        if all(sig.get(k) == val for k, val in f["match"].items()):
            return f
    return None


def run_check(check_id, tier, seed):
    t0 = time.time()
    repo = bind_repo()
    modname = "checks." + check_id.lower()
    mod = importlib.import_module(modname)
    units = list(mod.units(tier))
    order = list(enumerate(units))
    if order:
        r = seed % len(order)
        order = order[r:] + order[:r]  # rotate assignment only; the explored set is unchanged
    from isomc import refmodel
    sc_units = refmodel.selfcheck_units(tier)
    ctxm = mp.get_context("fork")
    results = []
    with ctxm.Pool(NPROC, initializer=_worker_init, initargs=(modname, tier, seed)) as pool:
        sc_async = pool.map_async(_selfcheck_run, sc_units, chunksize=1)
        for res in pool.imap_unordered(_worker_run, order, chunksize=1):
            results.append(res)
        sc = sc_async.get()
    selfcheck = refmodel.selfcheck_merge(sc)
    results.sort(key=lambda r: r["unit_index"])
    herr = [r for r in results if "harness_error" in r]
    if herr:
        sys.stderr.write("HARNESS ERROR in %d unit(s); first:\n%s\nunit=%s\n" % (
            len(herr), herr[0]["harness_error"], herr[0]["unit"]))
        return 2

    if os.environ.get("VERIF_DEBUG"):
        for r in sorted(results, key=lambda r: -r["wall"])[:5]:
            sys.stderr.write("slow unit %.1fs %s\n" % (r["wall"], r["unit"]))
    transitions = sum(r["transitions"] for r in results)
    traces = sum(r["traces"] for r in results)
    states = set()
    for r in results:
        states |= r["states"]
    nstates = len(states) + sum(r["state_count"] for r in results)
    counters, outcomes, caps, maxima, vcount = {}, {}, {}, {}, {}
    samples, violations = [], []
    for r in results:
        for k, v in r["counters"].items():
            counters[k] = counters.get(k, 0) + v
        for k, v in r["outcomes"].items():
            outcomes.setdefault(k, set()).update(v)
        caps.update(r["caps"])
        for k, v in r["maxima"].items():
            maxima[k] = max(v, maxima.get(k, v))
        for k, v in r["vcount"].items():
            vcount[k] = vcount.get(k, 0) + v
        violations.extend(r["violations"])
        samples.extend(r["samples"])
    # samples: a few, seed-dependent choice among the recorded ones
    if len(samples) > 6:
        step = max(1, len(samples) // 6)
        off = seed % step
        samples = samples[off::step][:6]

    findings = load_known_findings()
    known, unknown = {}, []
    for v in violations:
        f = match_finding(v, findings)
        if f is not None:
            known.setdefault(f["id"], [f, 0])[1] += 1
        else:
            unknown.append(v)
    # counts of violations beyond the recorded ones cannot be matched individually: if an oracle has
    # more violations than records (cap 40 per unit) we still decide on the recorded ones, which
    # are the first 40 of each unit in enumeration order.
    rdir = os.path.join(OUT, "replays", check_id)
    os.makedirs(rdir, exist_ok=True)
    for fn in os.listdir(rdir):
        os.unlink(os.path.join(rdir, fn))
    lines = []
    per_oracle = {}
    first_paths = []
    for v in unknown:
        n = per_oracle.get(v["oracle"], 0)
        per_oracle[v["oracle"]] = n + 1
        if n >= MAX_FILES_PER_ORACLE:
            continue
        path = os.path.join(rdir, "%s_%s_%d.json" % (check_id, v["oracle"].replace("/", "_"), n))
        with open(path, "w") as fh:
            json.dump(v, fh, indent=1, sort_keys=True, default=repr)
        first_paths.append(path)
        lines.append("VIOLATION property=%s replay=%s" % (check_id, path))

    # determinism guard: replay the first violation twice in fresh processes; observations must agree
    if first_paths and not os.environ.get("VERIF_NO_REPLAY_GUARD"):
        import subprocess
        outs = []
        for _ in range(2):
            p = subprocess.run([sys.executable, os.path.join(VERIF, "bin", "replay"), first_paths[0]],
                               capture_output=True, text=True, timeout=600,
                               env=dict(os.environ, VERIF_REPO=repo))
            outs.append((p.returncode, p.stdout))
        if outs[0] != outs[1] or outs[0][0] != 1:
            sys.stderr.write("HARNESS ERROR: violation %s does not replay deterministically: %r\n" % (
                first_paths[0], outs))
            return 2

    desc = mod.describe(tier)
    outcome_counts = {k: len(v) for k, v in sorted(outcomes.items())}
    coverage = {
        "states": nstates,
        "transitions": transitions,
        "traces_validated_against_impl": traces,
        "samples": samples[:6],
        "exhaustive": bool(desc.get("exhaustive", True)) and not caps,
        "rule": desc.get("rule", ""),
        "bounds": desc.get("bounds", {}),
        "alphabet_sizes": desc.get("alphabet_sizes", {}),
        "units": len(units),
        "counters": dict(sorted(counters.items())),
        "distinct_outcomes": outcome_counts,
        "maxima": maxima,
        "caps_hit": caps,
        "model_selfcheck": selfcheck,
        "violations_by_oracle": dict(sorted(vcount.items())),
        "known_findings_matched": {k: n for k, (f, n) in sorted(known.items())},
        "explanation": desc.get("explanation", ""),
        "workers": NPROC,
    }
    ev = {
        "property_id": check_id, "tier": tier, "seed": seed, "level": "model_checking",
        "coverage": coverage,
        "assumptions": desc.get("assumptions", []) + [
            "CPython, re and (for the Gregorian self-check of the reference model, years 1-9999) "
            "datetime are trusted",
            "claim is bounded: no violation within the declared alphabets/depths"],
        "wall_s": round(time.time() - t0, 2),
        "violations": len(unknown),
    }
    os.makedirs(os.path.join(OUT, "evidence"), exist_ok=True)
    with open(os.path.join(OUT, "evidence", check_id + ".json"), "w") as fh:
        json.dump(ev, fh, indent=1, sort_keys=True, default=repr)

    print("%s tier=%s seed=%d repo=%s units=%d states=%d transitions=%d executions=%d wall=%.1fs" % (
        check_id, tier, seed, repo, len(units), nstates, transitions, traces, ev["wall_s"]))
    print("  distinct outcomes: %s" % json.dumps(outcome_counts))
    if counters:
        print("  counters: %s" % json.dumps(dict(sorted(counters.items()))))
    if caps:
        print("  caps hit: %s" % json.dumps(caps))
    for fid, (f, n) in sorted(known.items()):
        print("KNOWN-FINDING: property=%s %s [%s, %d case(s) this run]" % (check_id, f["what"], fid, n))
    for ln in lines:
        print(ln)
    vac = getattr(mod, "vacuity", None)
    if vac is not None and not unknown:
        # only a run that is about to report "held" can be vacuous; violations are reported regardless
        msg = vac(tier, counters, outcome_counts)
        if msg:
            sys.stderr.write("HARNESS ERROR: vacuous exploration: %s\n" % msg)
            return 2
    if unknown:
        print("  %d violation(s) recorded not matching any known finding; by oracle: %s" % (
            len(unknown), json.dumps(per_oracle)))
        bysig = {}
        for v in unknown:
            k = v["oracle"] + " " + json.dumps(v.get("sig"), sort_keys=True)
            bysig[k] = bysig.get(k, 0) + 1
        for k, n in sorted(bysig.items(), key=lambda kv: -kv[1])[:int(os.environ.get("VERIF_SHOW", "15"))]:
            print("    %6d  %s" % (n, k))
        return 1
    return 0


def main(argv=None):
    argv = sys.argv[1:] if argv is None else argv
    if not argv:
        print("usage: check CNN [--tier quick|thorough]")
        return 2
    check_id = argv[0].upper()
    tier = os.environ.get("VERIF_TIER", "quick")
    if "--tier" in argv:
        tier = argv[argv.index("--tier") + 1]
    seed = int(os.environ.get("VERIF_SEED", "0") or 0)
    return run_check(check_id, tier, seed)


def replay_main(argv=None):
    argv = sys.argv[1:] if argv is None else argv
    path = argv[0]
    bind_repo()
    with open(path) as fh:
        v = json.load(fh)
    mod = importlib.import_module("checks." + v["property"].lower())
    from isomc import impl
    impl.reset_mode()
    ctx = Ctx(v["property"], "replay", 0)
    if isinstance(v["case"], dict) and v["case"].get("kind") == "unit":
        def _tup(x):
            return tuple(_tup(y) for y in x) if isinstance(x, list) else x
        unit = _tup(v["case"]["unit"])
        # units are tuples whose list-valued members are lists in the original; try both shapes
        for cand in (unit, tuple(v["case"]["unit"])):
            try:
                mod.run_unit(cand, ctx)
                break
            except BaseException as ex:  # noqa
                if _raised_in_library(ex):
                    ctx.violation("library_raised", {"exc": type(ex).__name__}, v["case"], "returns",
                                  "".join(traceback.format_exception(type(ex), ex, ex.__traceback__)[-4:]))
                    break
    else:
        mod.replay_case(v["case"], ctx)
    impl.reset_mode()
    print("replay of %s: case=%s" % (path, json.dumps(v["case"], default=repr)))
    hit = [x for x in ctx.violations if x["oracle"] == v["oracle"]]
    for x in ctx.violations:
        print("  oracle=%s expected=%s observed=%s" % (x["oracle"], json.dumps(x["expected"], default=repr),
                                                      json.dumps(x["observed"], default=repr)))
    if hit:
        print("VIOLATION property=%s replay=%s" % (v["property"], path))
        return 1
    print("no violation of oracle %s on this tree" % v["oracle"])
    return 0
