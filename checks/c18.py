"""C18 - Unix time and the system's local UTC offset are converted exactly.

(a) environment-answer enumeration: every (time.timezone, time.altzone, time.daylight, tm_isdst)
    with whole-minute offsets within +-24 h; oracle: the exact sign-carrying (hours, minutes) split
    and its three text forms.
(b) second counts: dense around the epoch, day boundaries, 2^31, extremes; oracle: M's epoch.
"""
import os
from fractions import Fraction

from isomc import impl, pools, alphabets as A, refmodel as M

ID = "C18"
TITLE = "Unix time and the system's local UTC offset are converted exactly"
G = M.cal("greg")
EPOCH = G.dn_from_cal(1970, 1, 1) * 86400
FLAGS = [(0, 0), (0, 1), (1, 0), (1, 1), (1, -1), (2, 1)]
OTHER = [0, 60, -3600, 86340, -45]         # seconds for the slot that must NOT be selected


def units(tier):
    us = []
    for a in range(-1440, 1441, 120):
        us.append(("split", a, min(a + 120, 1441)))
    if tier != "quick":
        for a in range(-1440, 1441, 30):
            us.append(("split_full", a, min(a + 30, 1441)))
    for a in range(-200000, 200001, 20000):
        us.append(("dense", a, min(a + 20000, 200001)))
    step = 1 if tier != "quick" else 1
    for y in range(1900, 2101, 5):
        us.append(("days", y, min(y + 5, 2101), tier))
    us.append(("extremes",))
    us.append(("fractional",))
    for rep in pools.REPS:
        us.append(("pool", rep))
    us.append(("local",))
    us.append(("dst_flip",))
    us.append(("real_zones",))
    return us


NEGATIVE_DST_ZONES = ["IST-1GMT0,M10.5.0,M3.5.0/1"]
REAL_ZONES = ["UTC0", "XXX-5:30", "XXX+5:30", "XXX-0:30", "XXX+0:30", "XXX-14", "XXX+12", "XXX-5:45", "XXX+3:30", "XXX-12:45",
              "XXX+9:01", "EST5EDT,M3.2.0,M11.1.0", "CET-1CEST,M3.5.0,M10.5.0/3", "AEST-10AEDT,M10.1.0,M4.1.0/3",
              "NZST-12NZDT,M9.5.0,M4.1.0/3", "LHST-10:30LHDT-11,M10.1.0,M4.1.0", "NST3:30NDT,M3.2.0,M11.1.0"] + NEGATIVE_DST_ZONES


def want_split(offset_minutes):
    return M.split_offset_minutes(offset_minutes)


def want_texts(o):
    if o == 0:
        return "Z", "Z", "Z"
    sign = "-" if o < 0 else "+"
    h, m = abs(o) // 60, abs(o) % 60
    normal = "%s%02d%02d" % (sign, h, m)
    ext = "%s%02d:%02d" % (sign, h, m)
    red = "%s%02d" % (sign, h) if m == 0 else normal
    return normal, ext, red


def check_env(ctx, tz_s, alt_s, daylight, isdst):
    from metomi.isodatetime import timezone as T
    selected = alt_s if (isdst == 1 and daylight) else tz_s
    o = -selected // 60 if selected % 60 == 0 else None
    assert o is not None
    case = lambda: {"kind": "env", "timezone": tz_s, "altzone": alt_s, "daylight": daylight, "isdst": isdst}  # noqa: E731
    sig = {"selected": "altzone" if selected is alt_s and (isdst == 1 and daylight) else "timezone",
           "hour_zero": abs(o) < 60, "negative": o < 0}
    fake = impl.FakeTime(timezone=tz_s, altzone=alt_s, daylight=daylight, isdst=isdst)
    ctx.transitions += 4
    try:
        with impl.system_zone(fake=fake):
            got = T.get_local_time_zone()
            texts = (T.get_local_time_zone_format(), T.get_local_time_zone_format(T.TimeZoneFormatMode.extended),
                     T.get_local_time_zone_format(T.TimeZoneFormatMode.reduced))
    except Exception as ex:
        ctx.violation("total", dict(sig, exc=type(ex).__name__), case, "offset reported", repr(ex))
        return
    ctx.traces += 1
    if tuple(got) != want_split(o) or not all(type(x) is int for x in got):
        ctx.violation("offset_split", sig, case, list(want_split(o)), list(got))
    if texts != want_texts(o):
        ctx.violation("offset_text", sig, case, list(want_texts(o)), list(texts))
    ctx.outcome("sign", (o > 0) - (o < 0))


def check_count(ctx, n, seams=(0,), variants=True):
    """TimePoint from n seconds since the epoch; and back."""
    case = lambda: {"kind": "count", "n": n}  # noqa: E731
    frac = isinstance(n, float) and n != int(n)
    for seam in seams:
        for utc in (True, False):
            sig = {"utc": utc, "seam": seam, "fractional": frac, "negative": n < 0}
            impl._H.ticks = 0
            ctx.transitions += 2
            try:
                with impl.system_zone(seam):
                    p = impl.D.get_timepoint_from_seconds_since_unix_epoch(n, utc=utc)
                    back = p.seconds_since_unix_epoch
            except Exception as ex:
                ctx.violation("total", dict(sig, exc=type(ex).__name__), case, "conversion works",
                              "raised %s: %s" % (type(ex).__name__, ex))
                continue
            ctx.traces += 1
            r = impl.alpha_fast(p, G)
            want = EPOCH + (Fraction(n) if frac else int(n))
            if r[8] is not None or r[7] != want:
                ctx.violation("from_epoch_instant", sig, case, {"instant": str(want)},
                              {"point": impl.sstr(p), "instant": str(r[7]), "why": r[8]})
                continue
            want_off = 0 if utc else seam
            if r[5] != want_off:
                ctx.violation("from_epoch_zone", sig, case, want_off, r[5])
            if back != str(int(n)):
                ctx.violation("to_epoch", sig, case, str(int(n)), back)
            if variants and not frac:
                for name, fn in (("rezoned", lambda: p.to_time_zone(impl.TimeZone(hours=5, minutes=45))),
                                 ("rezoned_neg", lambda: p.to_time_zone(impl.TimeZone(hours=0, minutes=-30))),
                                 ("week", lambda: p.to_week_date()), ("ordinal", lambda: p.to_ordinal_date())):
                    ctx.transitions += 1
                    try:
                        b2 = fn().seconds_since_unix_epoch
                    except Exception as ex:
                        ctx.violation("total", dict(sig, exc=type(ex).__name__, variant=name), case, "works", repr(ex))
                        continue
                    if b2 != str(int(n)):
                        ctx.violation("to_epoch", dict(sig, variant=name), case, str(int(n)), b2)
    ctx.outcome("year", G.year_of_dn(int((EPOCH + int(n)) // 86400)) // 50)


def run_unit(unit, ctx):
    impl.set_mode(None)
    u = unit[0]
    if u == "split":
        for o in range(unit[1], unit[2]):
            sel = -o * 60
            ctx.state_count += 1
            ctx.sample(lambda: {"timezone": sel, "altzone": OTHER[1], "daylight": 1, "isdst": 0})
            for other in OTHER:
                for daylight, isdst in FLAGS:
                    if isdst == 1 and daylight:
                        check_env(ctx, other, sel, daylight, isdst)
                    else:
                        check_env(ctx, sel, other, daylight, isdst)
    elif u == "split_full":
        for o in range(unit[1], unit[2]):
            for o2 in range(-1440, 1441):
                ctx.state_count += 1
                for daylight, isdst in FLAGS[:4]:
                    check_env(ctx, -o * 60, -o2 * 60, daylight, isdst)
    elif u == "dense":
        for n in range(unit[1], unit[2]):
            ctx.state_count += 1
            check_count(ctx, n, variants=(n % 97 == 0))
        ctx.sample({"n": unit[1]})
    elif u == "days":
        _, y0, y1, tier = unit
        stride = 1 if tier != "quick" else 41
        for dn in range(G.year_start(y0), G.year_start(y1)):
            if (dn % stride) and not (G.ord_from_dn(dn)[1] in (1, 60) and G.ord_from_dn(dn)[0] % 4 == 0):
                continue
            base = dn * 86400 - EPOCH
            for n in (base - 1, base, base + 1):
                ctx.state_count += 1
                check_count(ctx, n, seams=(0, 345), variants=False)
    elif u == "extremes":
        ns = [2 ** 31 - 1, 2 ** 31, 2 ** 31 + 1, -2 ** 31, -2 ** 31 - 1, 2 ** 32, 10 ** 10, -10 ** 10, 10 ** 11, -10 ** 11]
        for y, mo, d in ((1, 1, 1), (1, 12, 31), (9999, 1, 1), (9999, 12, 31), (0, 1, 1), (-1, 12, 31), (1600, 2, 29)):
            if y < 0:
                continue
            ns += [G.dn_from_cal(y, mo, d) * 86400 - EPOCH, G.dn_from_cal(y, mo, d) * 86400 - EPOCH + 86399]
        # whole Gregorian cycles (146097 days) from the epoch, +- a day and +- a second, several cycles out
        for k in (1, 2, 3, 5, 10, 19, -1, -2, -4):
            base = k * 146097 * 86400
            ns += [base, base - 1, base + 1, base - 86400, base + 86400, base + 43200, base - 86400 + 32696]
        for n in ns:
            ctx.state_count += 1
            check_count(ctx, n, seams=(0, -330, -210), variants=abs(n) < 10 ** 10)
    elif u == "fractional":
        for n in (0.5, 0.25, 1.75, 86399.5, 86400.25, 1e9 + 0.5, 2 ** 31 + 0.125, 59.999, 0.001, 1234567.891):
            ctx.state_count += 1
            check_count(ctx, n, seams=(0, 60))
    elif u == "pool":
        # seconds_since_unix_epoch of constructed points in any offset / representation
        rep = unit[1]
        for pdesc in pools.point_descs("greg", rep, pools.T_WHOLE + pools.T_24, pools.Z0 + pools.Z_DEV,
                                       [1900, 1969, 1970, 1971, 2000, 2038, 2100], "small"):
            ctx.state_count += 1
            ctx.transitions += 1
            dn, tod, off = impl.model_point(pdesc, "greg")
            want = str(int(dn * 86400 + tod - off * 60 - EPOCH))
            try:
                got = impl.build_point(pdesc).seconds_since_unix_epoch
            except Exception as ex:
                ctx.violation("total", {"exc": type(ex).__name__}, {"kind": "pool", "p": pdesc}, want, repr(ex))
                continue
            ctx.traces += 1
            if got != want:
                ctx.violation("to_epoch", {"rep": rep, "h24": pdesc["t"][1] == 24}, {"kind": "pool", "p": pdesc}, want, got)
    elif u == "dst_flip":
        # one process, one zone configuration, the is-dst answer changing over time (a DST transition)
        for tz_o, alt_o in ((60, 120), (-300, -240), (0, 60), (-30, 30), (345, 345), (-210, -150), (570, 630)):
            for seq in ((0, 1, 0, 1), (1, 0, 1), (1, 1, 0, -1, 1)):
                for isdst in seq:
                    ctx.state_count += 1
                    check_env(ctx, -tz_o * 60, -alt_o * 60, 1, isdst)
                check_env(ctx, -tz_o * 60, -alt_o * 60, 0, 1)
    elif u == "real_zones":
        # the real time module of a fresh process under POSIX TZ strings (no zone database needed): what the library
        # reports against the offset the operating system itself reports for the current moment (tm_gmtoff). The
        # alphabet only holds zones for which the answer does not depend on today's date being inside or outside DST
        # (both seasons are checked by the seam units above): fixed offsets; ordinary northern and southern DST rules;
        # a half-hour DST step; and a zone whose *standard* time is the summer one (negative DST, as Europe/Dublin)
        import subprocess
        import sys
        import json as _json
        prog = ("import time, json\n"
                "from metomi.isodatetime import timezone as T\n"
                "lt = time.localtime()\n"
                "print(json.dumps({'lib': list(T.get_local_time_zone()), 'texts': [T.get_local_time_zone_format(), "
                "T.get_local_time_zone_format(T.TimeZoneFormatMode.extended), "
                "T.get_local_time_zone_format(T.TimeZoneFormatMode.reduced)], 'gmtoff': lt.tm_gmtoff, 'isdst': lt.tm_isdst}))\n")
        for tz in REAL_ZONES:
            env = dict(os.environ, TZ=tz, PYTHONPATH=os.environ.get("VERIF_REPO", "/repo"), PYTHONHASHSEED="0",
                       PYTHONDONTWRITEBYTECODE="1")
            ctx.transitions += 1
            ctx.state_count += 1
            pr = subprocess.run([sys.executable, "-c", prog], capture_output=True, text=True, env=env, timeout=60)
            if pr.returncode != 0:
                raise RuntimeError("real-zone probe failed under TZ=%s: %s" % (tz, pr.stderr[-300:]))
            got = _json.loads(pr.stdout)
            ctx.traces += 1
            if got["gmtoff"] % 60:
                continue
            o = got["gmtoff"] // 60
            case = {"kind": "real_zone", "TZ": tz}
            sig = {"real_time_module": True, "negative_dst": tz in NEGATIVE_DST_ZONES}
            if tuple(got["lib"]) != want_split(o):
                ctx.violation("offset_split", sig, case, {"tm_gmtoff_minutes": o, "pair": list(want_split(o))}, got)
            elif tuple(got["texts"]) != want_texts(o):
                ctx.violation("offset_text", sig, case, list(want_texts(o)), got)
            ctx.outcome("real_zone_isdst", got["isdst"])
    elif u == "local":
        from metomi.isodatetime.parsers import TimePointParser
        p0 = impl.build_point({"rep": "cal", "f": [2000, 1, 1], "t": ["hms", 0, 0, 0], "tz": [0, 0]})
        for o in range(-1440, 1441):
            ctx.state_count += 1
            ctx.transitions += 2
            with impl.system_zone(o):
                q = p0.to_local_time_zone()
                r = TimePointParser().parse("2000-01-01T00:00:00")
            want = want_split(o)
            if (q.time_zone.hours, q.time_zone.minutes) != want or impl.alpha_fast(q, G)[7] != impl.alpha_fast(p0, G)[7]:
                ctx.violation("to_local", {"negative": o < 0}, {"kind": "local", "offset": o}, list(want), impl.sstr(q))
            if (r.time_zone.hours, r.time_zone.minutes) != want:
                ctx.violation("parser_default_zone", {"negative": o < 0}, {"kind": "local", "offset": o}, list(want), impl.sstr(r))
            ctx.traces += 1


def replay_case(case, ctx):
    impl.set_mode(None)
    k = case["kind"]
    if k == "env":
        check_env(ctx, case["timezone"], case["altzone"], case["daylight"], case["isdst"])
    elif k == "count":
        check_count(ctx, case["n"], seams=(0, 345, -330, 60))
    elif k == "pool":
        run_unit(("pool", case["p"]["rep"]), ctx)
    elif k == "real_zone":
        run_unit(("real_zones",), ctx)
    else:
        run_unit(("local",), ctx)


def vacuity(tier, counters, outcomes):
    if outcomes.get("sign", 0) != 3:
        return "offset signs not all seen"
    if outcomes.get("year", 0) < 5:
        return "second counts did not spread over centuries"
    return None


def describe(tier):
    return {
        "rule": "(a) selected slot: every whole-minute offset in +-24 h (2881) x 5 values of the unselected slot x 6 "
                "(daylight, tm_isdst) combinations%s; (b) every integer second count in +-200000; day boundaries +-1 s "
                "over 1900-2100 (%s); 2^31, 2^32, +-1e10, +-1e11, first/last days of years 0, 1, 9999; non-negative "
                "fractions; seconds_since_unix_epoch of pool points in 9 offsets x 3 representations incl. 24:00; "
                "to_local_time_zone and parser default zone for every offset" % (
                    "" if tier == "quick" else "; the full 2881 x 2881 x 4 product",
                    "every 41st day + leap-day neighbourhood" if tier == "quick" else "every day"),
        "bounds": {"offset_minutes": [-1440, 1440], "dense_counts": [-200000, 200000]},
        "alphabet_sizes": {"flags": len(FLAGS), "unselected_values": len(OTHER)},
        "exhaustive": True,
        "assumptions": ["whole-minute system offsets (as stated)", "fractional second counts are non-negative (as stated)"],
    }
