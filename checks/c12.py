"""C12 - a recurrence iterates exactly the series it denotes.

States: recurrences (notation x repetitions x anchor x interval x construction route x mode).
Transitions: iter()/list(). Oracle: the series definition - count, anchor membership, each point
the previous one plus/minus the interval (library +), M's instants for exact intervals, the three
notations of one finite exact series equal and iterating identically.
"""
from fractions import Fraction

from isomc import impl, recur, pools, alphabets as A, refmodel as M
from isomc.runner import HorizonExceeded

ID = "C12"
TITLE = "A recurrence iterates exactly the series it denotes"
TOL = Fraction(1, 1000000)


def units(tier):
    us = []
    for kind in A.KINDS:
        n = len(recur.anchors(kind, tier))
        for i in range(n):
            us.append((kind, i))
    for a in A.KINDS:
        for b in A.KINDS:
            if a != b:
                us.append(("switch", a, b))
    for kind in A.KINDS:
        for ai in (0, 1, 2):
            us.append(("far", kind, ai))
    return us


def _exact_float(adesc, ddesc):
    return pools.exact_domain(adesc["t"], ddesc)


def check_rec(ctx, kind, c, desc):
    case = lambda: {"kind": "rec", "mode": kind, "r": desc}  # noqa: E731
    fmt, n, ddesc = desc["fmt"], desc["n"], desc["dur"]
    nominal, zero = recur.is_nominal(ddesc), recur.is_zero(ddesc)
    sig = {"fmt": fmt, "bounded": n is not None, "nominal": nominal, "via": desc["via"]}
    if fmt == 4 and n is not None and nominal and n > 1:
        # narrows known finding F3 to its mechanism: M says whether the forward walk from the derived start can
        # land on the end at all
        sig["m_walk_hits_end"] = recur.m_walk_hits_end(impl, kind, desc["anchor"], ddesc, n)
    impl._H.ticks = 0
    ctx.transitions += 1
    try:
        r, a, d, second = recur.build(impl, desc)
    except HorizonExceeded as ex:
        ctx.violation("terminates", sig, case, "construction terminates", str(ex))
        return None
    except Exception as ex:
        ctx.violation("construct", dict(sig, exc=type(ex).__name__), case, "a valid recurrence is accepted",
                      "raised %s: %s" % (type(ex).__name__, ex))
        return None
    single = n == 1 or zero
    n_eff = 1 if single else n
    limit = (n_eff + 5) if n_eff is not None else recur.CAP
    impl._H.ticks = 0
    ctx.transitions += 1
    try:
        pts = recur.take(r, limit)
    except HorizonExceeded as ex:
        ctx.violation("terminates", sig, case, "iteration terminates", str(ex))
        return None
    except Exception as ex:
        ctx.violation("total", dict(sig, exc=type(ex).__name__), case, "iteration yields TimePoints",
                      "raised %s: %s" % (type(ex).__name__, ex))
        return None
    ctx.traces += 1
    shown = lambda: [impl.sstr(p) for p in pts[:8]]  # noqa: E731
    ctx.outcome("series_len", len(pts))
    # outside the exact float domain a bound comparison can flip on rounding noise (a decimal-hour anchor stepped by
    # seconds accumulates 1e-12 s): the count / end-anchor oracles are then not judged (same rule as C14)
    noisy = (not nominal) and not _exact_float(desc["anchor"], ddesc)
    if noisy and n_eff is not None and len(pts) != n_eff:
        # "exactly n points" has no tolerance clause: a series that loses (or gains) its last point because the bound
        # test flips on accumulated rounding noise breaks the statement; reported under its own signature
        ctx.count("series_with_wrong_count_in_float_noise_domain")
        ctx.violation("count", dict(sig, single=single, float_noise_domain=True), case, n_eff,
                      {"len": len(pts), "points": shown()})
        return r
    # O1 count
    if n_eff is not None:
        if len(pts) != n_eff:
            ctx.violation("count", dict(sig, single=single), case, n_eff, {"len": len(pts), "points": shown()})
    elif len(pts) != recur.CAP:
        ctx.violation("count", dict(sig, single=single), case, "unbounded: at least %d points" % recur.CAP,
                      {"len": len(pts), "points": shown()})
    if not pts:
        return r
    # O8 single
    if single:
        if not (len(pts) == 1 and pts[0] == a):
            ctx.violation("single_is_anchor", sig, case, [impl.sstr(a)], shown())
        return r
    descending = fmt == 4 and n is None
    # O2 anchor membership / position
    if noisy:
        # outside the exact float domain "is the anchor" means "denotes the anchor's instant to within a microsecond"
        ia = impl.alpha_fast(a, c)[7]
        same = lambda p: abs(impl.alpha_fast(p, c)[7] - ia) <= TOL   # noqa: E731
    else:
        same = lambda p: p == a   # noqa: E731
    if fmt in (1, 3) or descending:
        if not same(pts[0]):
            ctx.violation("anchor", sig, case, {"first": impl.sstr(a)}, shown())
    else:
        if not any(same(p) for p in pts):
            ctx.violation("anchor", sig, case, {"contains_end": impl.sstr(a)}, shown())
    # the interval this recurrence denotes
    if fmt == 1:
        step = r.duration   # the interval a start/second-point recurrence denotes is second - start
    else:
        step = d
    # O3 each point is the previous one plus (minus) the interval; O4 strict monotonicity
    infos = [impl.alpha_fast(p, c) for p in pts]
    for k in range(len(pts) - 1):
        ctx.transitions += 2
        try:
            nxt = (pts[k] - step) if descending else (pts[k] + step)
            ok_step = nxt == pts[k + 1]
            if not ok_step and fmt == 4 and not descending:
                # bounded duration/end: "plus or minus the interval" - either direction of derivation is accepted
                ok_step = (pts[k + 1] - step) == pts[k]
            if not ok_step:
                ctx.violation("step", sig, case, {"k": k, "prev_plus_interval": impl.sstr(nxt)},
                              {"next": impl.sstr(pts[k + 1]), "points": shown()})
                break
            mono = (pts[k + 1] < pts[k]) if descending else (pts[k] < pts[k + 1])
            if not mono:
                ctx.violation("monotone", sig, case, "strictly %s" % ("decreasing" if descending else "increasing"),
                              shown())
                break
        except Exception as ex:
            ctx.violation("total", dict(sig, exc=type(ex).__name__), case, "p + d and < work on iterated points",
                          "raised %s: %s" % (type(ex).__name__, ex))
            break
    # O5 exact intervals: M's instants
    if not nominal and all(i[8] is None for i in infos):
        ln = impl.duration_len(ddesc)
        dn, tod, off = impl.model_point(desc["anchor"], kind)
        a_inst = dn * 86400 + tod - off * 60
        exact = _exact_float(desc["anchor"], ddesc)
        if fmt == 1 and not exact:
            # the second point went through float arithmetic (and, via the parser, six-digit text): the
            # interval denoted is not exactly the alphabet's; only the step oracle applies
            infos = []
        for k, info in enumerate(infos):
            if fmt in (1, 3):
                want = a_inst + k * ln
            elif descending:
                want = a_inst - k * ln
            else:
                want = a_inst - (n - 1 - k) * ln
            if info[7] != want and (exact or abs(info[7] - want) > TOL):
                ctx.violation("instants", dict(sig, exact=exact), case, {"k": k, "instant": str(want)},
                              {"instant": str(info[7]), "points": shown()})
                break
    elif any(i[8] is not None for i in infos):
        bad = [i[8] for i in infos if i[8] is not None][0]
        ctx.violation("valid_points", sig, case, "every iterated point valid", {"why": bad, "points": shown()})
    return r


def check_notations(ctx, kind, c, anchor, ddesc, n):
    """For exact intervals the three notations of one finite series are equal and iterate identically."""
    case = lambda: {"kind": "notations", "mode": kind, "anchor": anchor, "dur": ddesc, "n": n}  # noqa: E731
    sig = {"n": n, "zero": recur.is_zero(ddesc)}
    impl._H.ticks = 0
    try:
        a = impl.build_point(anchor)
        d = impl.build_duration(ddesc)
        second = a + d
        end = a + d * (n - 1)
        r3 = impl.TimeRecurrence(repetitions=n, start_point=a, duration=d)
        r1 = impl.TimeRecurrence(repetitions=n, start_point=a, end_point=second)
        r4 = impl.TimeRecurrence(repetitions=n, end_point=end, duration=d)
        ctx.transitions += 6
        l3, l1, l4 = recur.take(r3, n + 5), recur.take(r1, n + 5), recur.take(r4, n + 5)
        ctx.traces += 3
        if not (r3 == r1 and r1 == r4 and r3 == r4):
            ctx.violation("notations_equal", sig, case, "r1 == r3 == r4", [str(r1), str(r3), str(r4)])
        same = len(l3) == len(l1) == len(l4) and all(x == y and y == z for x, y, z in zip(l3, l1, l4))
        if not same:
            ctx.violation("notations_iterate_identically", sig, case, [impl.sstr(p) for p in l3[:6]],
                          {"fmt1": [impl.sstr(p) for p in l1[:6]], "fmt4": [impl.sstr(p) for p in l4[:6]]})
    except HorizonExceeded as ex:
        ctx.violation("terminates", sig, case, "terminates", str(ex))
    except Exception as ex:
        ctx.violation("total", dict(sig, exc=type(ex).__name__), case, "three notations constructible",
                      "raised %s: %s" % (type(ex).__name__, ex))


def run_unit(unit, ctx):
    if unit[0] == "far":
        # intervals of a whole 400-year cycle of days and more (also as the derived n-1 multiple)
        _, kind, ai = unit
        impl.set_mode(A.MODE_OF[kind])
        c = M.cal(kind)
        anchor = recur.anchors(kind, "quick")[ai]
        for d in ({"days": 146097}, {"days": 144000}, {"weeks": 20871}, {"days": 73050}, {"hours": 3506328}):
            for n in (3, None):
                for fmt in (3, 4, 1):
                    desc = {"fmt": fmt, "n": n, "anchor": anchor, "dur": d, "via": "ctor"}
                    ctx.state_count += 1
                    saved = recur.CAP
                    recur.CAP = 3
                    try:
                        check_rec(ctx, kind, c, desc)
                    finally:
                        recur.CAP = saved
            check_notations(ctx, kind, c, anchor, d, 3)
        return
    if unit[0] == "switch":
        # series that span several years, iterated in mode A, then B, then A again in one process
        for kx in (unit[1], unit[2], unit[1]):
            impl.set_mode(A.MODE_OF[kx])
            cx = M.cal(kx)
            for anchor in recur.anchors(kx, "quick")[:6]:
                for d in ({"days": 366}, {"days": 1}, {"years": 1}, {"months": 1}, {"weeks": 1}):
                    for fmt in (3, 4, 1):
                        if fmt == 1 and recur.is_nominal(d):
                            continue
                        ctx.state_count += 1
                        check_rec(ctx, kx, cx, {"fmt": fmt, "n": 4, "anchor": anchor, "dur": d, "via": "ctor"})
                    if not recur.is_nominal(d):
                        check_notations(ctx, kx, cx, anchor, d, 4)
        return
    kind, ai = unit
    impl.set_mode(A.MODE_OF[kind])
    c = M.cal(kind)
    anchor = recur.anchors(kind, ctx.tier)[ai]
    ns = recur.NS if ctx.tier == "quick" else recur.NS + [13]
    for d in recur.EXACT + recur.EXACT_DECIMAL + recur.NOMINAL:
        for n in ns:
            for fmt in (3, 4, 1):
                if fmt == 1 and recur.is_nominal(d):
                    continue
                if fmt == 4 and n is not None and recur.is_nominal(d) and anchor["t"][1] == 24:
                    # month/year arithmetic on a 24:00 operand is ambiguous (normalise before or after the month
                    # step); the property does not define it, so such series are not judged (same rule as C05)
                    ctx.count("skipped_24h_anchor_nominal_bounded_end")
                    continue
                for via in ("ctor", "parser"):
                    if via == "parser" and recur.mixed_sign(d):
                        continue   # a mixed-sign duration has no text form (C10 is about single-signed durations)
                    desc = {"fmt": fmt, "n": n, "anchor": anchor, "dur": d, "via": via}
                    ctx.state_count += 1
                    ctx.sample(desc)
                    check_rec(ctx, kind, c, desc)
            if n is not None and not recur.is_nominal(d) and _exact_float(anchor, d):
                check_notations(ctx, kind, c, anchor, d, n)


def replay_case(case, ctx):
    kind = case["mode"]
    impl.set_mode(A.MODE_OF[kind])
    c = M.cal(kind)
    if case["kind"] == "rec":
        check_rec(ctx, kind, c, case["r"])
    else:
        check_notations(ctx, kind, c, case["anchor"], case["dur"], case["n"])


def vacuity(tier, counters, outcomes):
    if outcomes.get("series_len", 0) < 5:
        return "fewer than 5 distinct series lengths"
    return None


def describe(tier):
    return {
        "rule": "per mode: anchors (month ends, leap day, year end with offset, last day of year, last ISO week day 7, "
                "24:00 form, decimal form; each in 3 representations) x intervals (9 exact incl. zero, 7 nominal) x "
                "repetitions x 3 notations x {constructor, parser}; unbounded series are iterated to the first "
                "%d points" % recur.CAP,
        "bounds": {"unbounded_iteration_cap": recur.CAP, "repetitions": [str(x) for x in recur.NS],
                   "anchors_per_mode": {k: len(recur.anchors(k, tier)) for k in A.KINDS}},
        "alphabet_sizes": {"exact_intervals": len(recur.EXACT), "nominal_intervals": len(recur.NOMINAL)},
        "exhaustive": True,
        "assumptions": ["unbounded series: only the first %d points are examined (cap, reported)" % recur.CAP,
                        "the library's own + is used to step nominal intervals (its correctness is C01/C05)"],
    }
