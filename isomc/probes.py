"""Mode-discriminating probes for C15 (each enters a different memoised helper first), the mode-switch
channels, and the fresh-process oracle. Run as a script:  python -m isomc.probes <spelling> [history-json]
prints JSON of the observations of a process that only ever did what it was told.
"""
import contextlib
import io
import json
import os
import sys


def _lib():
    from metomi.isodatetime import data as D
    from metomi.isodatetime.parsers import TimePointParser, DurationParser, TimeRecurrenceParser
    return D, TimePointParser, DurationParser, TimeRecurrenceParser


def _tp(text):
    D, TPP, DP, TRP = _lib()
    return TPP(assumed_time_zone=(0, 0)).parse(text)


_SHARED = {}


def _shared_parsers():
    """Long-lived parser / dumper / operator objects, created once per process and reused across mode switches."""
    if not _SHARED:
        D, TPP, DP, TRP = _lib()
        from metomi.isodatetime.dumpers import TimePointDumper
        _SHARED["tp"] = TPP(assumed_time_zone=(0, 0))
        _SHARED["rec"] = TRP(_SHARED["tp"], DP())
        _SHARED["dumper"] = TimePointDumper()
    return _SHARED


def _wk(p):
    return [p.year, p.week_of_year, p.day_of_week]


def _acc(fn):
    try:
        fn()
        return True
    except ValueError:
        return False


def _err(fn):
    try:
        return fn()
    except ValueError as e:
        return "ValueError:" + type(e).__name__


def _cli(argv):
    from metomi.isodatetime.main import main
    buf = io.StringIO()
    try:
        with contextlib.redirect_stdout(buf), contextlib.redirect_stderr(io.StringIO()):
            main(argv)
    except SystemExit as ex:
        return "exit:" + type(ex.code).__name__
    return buf.getvalue()


def _probes():
    D, TPP, DP, TRP = _lib()
    P = [
        ("ord_from_cal", lambda: list(D.get_ordinal_date_from_calendar_date(2001, 3, 1))),
        ("week_from_cal", lambda: list(D.get_week_date_from_calendar_date(2001, 3, 1))),
        ("cal_from_ord", lambda: list(D.get_calendar_date_from_ordinal_date(2001, 60))),
        ("week_from_ord", lambda: list(D.get_week_date_from_ordinal_date(2001, 60))),
        ("cal_from_week", lambda: list(D.get_calendar_date_from_week_date(2001, 9, 4))),
        ("ord_from_week", lambda: list(D.get_ordinal_date_from_week_date(2001, 9, 4))),
        ("days_in_month", lambda: [D.get_days_in_month(2, 2001), D.get_days_in_month(2, 2004), D.get_days_in_month(1, 2001)]),
        ("days_in_year", lambda: [D.get_days_in_year(2001), D.get_days_in_year(2004)]),
        ("weeks_in_year", lambda: [D.get_weeks_in_year(2004), D.get_weeks_in_year(2001)]),
        ("days_in_year_range", lambda: D.get_days_in_year_range(1999, 2004)),
        ("week_start", lambda: list(D.get_calendar_date_week_date_start(2005))),
        ("validate_feb30", lambda: _err(lambda: str(D.TimePoint(year=2001, month_of_year=2, day_of_month=30)))),
        ("validate_day366", lambda: _err(lambda: str(D.TimePoint(year=2001, day_of_year=366)))),
        # year-less truncated designators are bounded by the mode's longest month / year / week count
        ("validate_truncated", lambda: [_acc(lambda: D.TimePoint(truncated=True, day_of_month=31)),
                                        _acc(lambda: D.TimePoint(truncated=True, day_of_month=30)),
                                        _acc(lambda: D.TimePoint(truncated=True, day_of_year=366)),
                                        _acc(lambda: D.TimePoint(truncated=True, day_of_year=361)),
                                        _acc(lambda: D.TimePoint(truncated=True, week_of_year=53, day_of_week=1)),
                                        _acc(lambda: D.TimePoint(truncated=True, week_of_year=52, day_of_week=1))]),
        ("add_month", lambda: str(_tp("2001-01-30T00Z") + D.Duration(months=1))),
        ("add_hours", lambda: str(_tp("2001-02-28T23Z") + D.Duration(hours=2))),
        ("subtract", lambda: [str(_tp("2002-001T00Z") - _tp("2001-001T00Z")), str(_tp("2005-03-01T06:30Z") - _tp("2003-03-01T06:30Z")),
                              str(_tp("1999-12-31T00Z") - _tp("2004-02-29T12Z"))]),
        ("add_day_week", lambda: [str(_tp("2002-W51-7T00Z") + D.Duration(days=8)), str(_tp("2005-W51-7T00Z") + D.Duration(days=8))]),
        ("recurrence", lambda: [str(p) for p in TRP().parse("R3/2001-02-28T00Z/P1D")]),
        ("strftime_j", lambda: _tp("2001-12-30T00Z").strftime("%j")),
        ("iter_months_days", lambda: [len(D.iter_months_days(2001)), list(D.iter_months_days(2001)[58]),
                                      list(D.iter_months_days(2004, in_reverse=True)[0])]),
        ("year_add", lambda: str(_tp("2004-366T00Z") + D.Duration(years=1)) if D.get_days_in_year(2004) >= 366 else
         str(_tp("2004-360T00Z") + D.Duration(years=1))),
        ("week_year_add", lambda: [_wk(_tp("2001-W52-2T00Z") + D.Duration(years=1)), _wk(_tp("2004-W52-7T00Z") + D.Duration(years=-2)),
                                   _wk(_tp("2000-W51-1T00Z") + D.Duration(years=5))]),
        ("nominal_lengths", lambda: [list(D.Duration(years=1).get_days_and_seconds()), D.Duration(years=1, months=1).get_seconds(),
                                     D.Duration(years=1) > D.Duration(days=361), D.Duration(years=1) <= D.Duration(days=360),
                                     D.Duration(years=1) < D.Duration(days=366)]),
        ("shared_parser", lambda: [_err(lambda: str(_shared_parsers()["tp"].parse("2001-02-30T06:00:00Z"))),
                                   _err(lambda: str(_shared_parsers()["tp"].parse("2001-366T00Z"))),
                                   _err(lambda: [str(p) for p in _shared_parsers()["rec"].parse("R3/2001-02-28T00Z/P1D")]),
                                   _shared_parsers()["dumper"].dump(_shared_parsers()["tp"].parse("2001-03-01T00Z"), "CCYY-DDD")]),
        ("cli_offset", lambda: _cli(["2001-02-28T00Z", "--offset", "P1D", "--calendar", CURRENT["cli"]])),
    ]
    return P


CURRENT = {"cli": "gregorian"}
CLI_SPELLING = {"gregorian": "gregorian", "360day": "360day", "360_day": "360day", "365day": "365day",
                "365_day": "365day", "366day": "366day", "366_day": "366day"}
CHANNELS = ["api", "operator", "env", "cli"]


def switch(spelling, channel):
    """Switch the process-wide calendar mode to `spelling` through one of the public channels."""
    from metomi.isodatetime.data import Calendar
    from metomi.isodatetime.datetimeoper import DateTimeOperator
    if channel == "api":
        Calendar.default().set_mode(spelling)
    elif channel == "operator":
        saved = os.environ.pop("ISODATETIMECALENDAR", None)
        try:
            DateTimeOperator(calendar_mode=spelling)
        finally:
            if saved is not None:
                os.environ["ISODATETIMECALENDAR"] = saved
    elif channel == "env":
        saved = os.environ.get("ISODATETIMECALENDAR")
        os.environ["ISODATETIMECALENDAR"] = spelling
        try:
            DateTimeOperator()
        finally:
            os.environ.pop("ISODATETIMECALENDAR", None)
            if saved is not None:
                os.environ["ISODATETIMECALENDAR"] = saved
    elif channel == "cli":
        saved = os.environ.pop("ISODATETIMECALENDAR", None)
        try:
            _cli(["2000-01-01T00Z", "--calendar", CLI_SPELLING[spelling]])
        finally:
            if saved is not None:
                os.environ["ISODATETIMECALENDAR"] = saved
    elif channel == "operator_reset":
        saved = os.environ.pop("ISODATETIMECALENDAR", None)
        try:
            DateTimeOperator()      # no argument, no environment variable: back to Gregorian
        finally:
            if saved is not None:
                os.environ["ISODATETIMECALENDAR"] = saved
    else:
        raise ValueError(channel)
    CURRENT["cli"] = CLI_SPELLING[spelling.lower()] if channel != "operator_reset" else "gregorian"


def run_history(history):
    """history: list of ["S", spelling, channel] | ["Q", probe name]; returns the list of observations."""
    table = dict(_probes())
    obs = []
    for ev in history:
        if ev[0] == "S":
            switch(ev[1], ev[2])
            obs.append(None)
        else:
            try:
                obs.append(table[ev[1]]())
            except Exception as e:  # noqa
                obs.append("EXC:%s:%s" % (type(e).__name__, e))
    return obs


def names():
    return [n for n, _ in _probes()]


if __name__ == "__main__":
    spelling = sys.argv[1]
    if len(sys.argv) > 2:
        print(json.dumps(run_history(json.loads(sys.argv[2]))))
    else:
        ns = names()
        fwd = run_history([["S", spelling, "api"]] + [["Q", n] for n in ns])[1:]
        rev = run_history([["Q", n] for n in reversed(ns)])
        rev = list(reversed(rev))
        print(json.dumps({"forward": dict(zip(ns, fwd)), "reverse": dict(zip(ns, rev))}))
